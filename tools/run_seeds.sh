#!/bin/bash
# Re-run every seeded change in /verif/seeded against the quick tier of its
# property's check (scratch copy of /repo via VF_REPO; /repo is never touched).
#   tools/run_seeds.sh            all seeds
#   tools/run_seeds.sh C06        seeds of one property
cd "$(dirname "$0")/.."
miss=0
for d in seeded/${1:-}*/; do
  id=$(basename $d); prop=${id%%-*}
  out=$(tools/mutate.py $prop --patch $d/patch.diff 2>&1 | head -1)
  echo "$id $out"
  [ "$out" = "exit=1" ] || miss=$((miss+1))
done
echo "seeds not detected by their own property's quick check: $miss"
