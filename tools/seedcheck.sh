#!/bin/bash
# tools/seedcheck.sh C07 A "brax/envs" [extra check ids...]
# Confirms a sub-agent's seeded change in its scratch worktree (demo passes
# without / fails with; given existing tests still pass with it), runs the
# property's quick check against a scratch copy carrying the change, and
# files it under /verif/seeded/<prop>-<X>/.
prop=$1; x=$2; tests=$3; shift 3
wt=/tmp/${SEEDROOT:-seed}_$prop
sfx=${SEEDSFX:-}
cd $wt || exit 9
git checkout -q -- . 2>/dev/null
export PYTHONPATH=$wt
/venv/bin/python seed/${x}_demo.py >/tmp/seed_${prop}_${x}_clean.log 2>&1; rc_clean=$?
git apply seed/$x.diff || { echo "APPLY FAILED"; exit 8; }
/venv/bin/python seed/${x}_demo.py >/tmp/seed_${prop}_${x}_mut.log 2>&1; rc_mut=$?
if [ -n "$tests" ]; then
  /venv/bin/python -m pytest -q -p no:cacheprovider -n 6 $tests --deselect brax/generalized/constraint_test.py --deselect brax/generalized/mass_test.py >/tmp/seed_${prop}_${x}_tests.log 2>&1; rc_tests=$?
else rc_tests=skipped; fi
git checkout -q -- .
unset PYTHONPATH
echo "demo clean rc=$rc_clean  demo mutated rc=$rc_mut  tests rc=$rc_tests ($(tail -1 /tmp/seed_${prop}_${x}_tests.log 2>/dev/null))"
cd /verif
det=""
for p in $prop "$@"; do
  out=$(tools/mutate.py $p --patch $wt/seed/$x.diff 2>&1)
  echo "check $p: $(echo "$out" | head -2 | tr '\n' ' ' | cut -c1-220)"
  echo "$out" | grep -q "^exit=1" && det="$det $p"
done
d=/verif/seeded/$prop-$x$sfx
mkdir -p $d
cp $wt/seed/$x.diff $d/patch.diff; cp $wt/seed/${x}_demo.py $d/demo.py; cp $wt/seed/${x}_notes.md $d/notes.md
python3 - <<PY
import json
json.dump({"property": "$prop", "seed": "$prop-$x$sfx", "origin": "independent sub-agent given only the property text and a scratch worktree",
 "demo_rc_unchanged": $rc_clean, "demo_rc_with_change": $rc_mut, "existing_tests": "$tests", "existing_tests_rc": "$rc_tests",
 "detected_by_quick_checks": "$det".split(), "checks_run": "$prop $@".split(),
 "what_i_ran": "tools/seedcheck.sh $prop $x '$tests' $@ (demo without/with the change in the scratch worktree, the listed existing tests with the change, then ./check <id> --tier quick against a scratch copy of /repo carrying the change via VF_REPO)"},
 open("$d/meta.json","w"), indent=1)
PY
echo "DETECTED_BY:$det"
