#!/usr/bin/env python3
"""Regenerates MANIFEST.json from the table below (kept valid at all times)."""
import json
import os

HERE = os.path.dirname(os.path.dirname(os.path.abspath(__file__)))

# id -> (technique, level text, level note, design ref)
CHECKS = {
    'C01': (
        'reference-model monitor: MuJoCo xpos/xquat/mj_objectVelocity vs '
        'kinematics.forward on generated models and states',
        'Every link pose of generated forests (1-6 links, any stack of '
        'hinge/slide joints, arbitrary frames) and of ALL 196 ordered forest '
        'shapes with 1-6 links is compared with MuJoCo at 10 states per model '
        '(incl. the default pose at rest); world velocities are compared on '
        'the claimed link class and classified (known finding K1) elsewhere.',
        'Trusts MuJoCo 3.13 mj_forward / mj_objectVelocity on the same XML.',
        'DESIGN.md §2 C01'),
    'C02': (
        'reference-model monitor: MuJoCo mj_fullM, qfrc_*, mj_step vs the '
        'generalized pipeline terms and step',
        'Mass matrix (symmetric PD, equal), bias, passive, actuation, smooth '
        'force and the constraint-free step are compared with MuJoCo on '
        'generated models incl. slides on rotated bodies and mixed stacks.',
        'Trusts MuJoCo 3.13; step compared only when no constraint row is '
        'active in either engine (counted).',
        'DESIGN.md §2 C02'),
    'C03': (
        'relational monitor: reverse-mode gradient vs central finite '
        'differences of the same jitted float64 loss; finiteness at singular '
        'inputs and resting contacts',
        'Gradients through 1-2 (quick) / 1-5 (thorough) steps of the three '
        'pipelines are checked finite at generic and singular states (zero '
        'pose/velocity, axis-aligned rotations, resting contact, float32) and '
        'equal to finite differences away from switching, also at near-zero '
        'poses and zero velocity (known findings K4: damped gradient within '
        '4.5e-4 rad of a zero second stack angle; K5: positional dead zone at '
        'a state exactly at rest).',
        'Finite differences of the real loss are the reference; kinks between '
        'stencil points are detected and counted.',
        'DESIGN.md §2 C03'),
    'C04': (
        'conservation invariant on every step event (total momentum) + rest '
        'invariant, on generated free-rooted models and collision scenes',
        'Momentum balance is asserted on every step of spring/positional '
        'histories (also diverging ones) computed two ways (state COM '
        'velocities; public link state + MuJoCo masses); a resting system must '
        'stay at rest in all three pipelines (K3 classifies the excluded '
        'stack classes).',
        'Round-off scale is the momentum magnitude; collision scenes count '
        'only when the contact acted (twin run without collisions).',
        'DESIGN.md §2 C04'),
    'C05': (
        'relational monitors over pairs of executions: rigid transform of the '
        'scene, sibling order permutation, merged vs solo components',
        'The same real pipelines are run on the transformed / permuted / '
        'merged representation and results are compared by name to 1e-7 '
        '(observed 1e-12).',
        'Diverging trajectories and generalized solver-active states are '
        'counted, not compared.',
        'DESIGN.md §2 C05'),
    'C06': (
        'relational monitors (twin model without collisions / limits) + '
        'trajectory invariants (push-only, resting height, rebound ratio)',
        'Separated geometry and unreached limits must leave the step '
        'unchanged (guards computed from observed distances / margins); a '
        'penetrating body is only pushed out; drops come to rest at the '
        'closed-form height; rebounds match the configured elasticity.',
        'Closed-form penetration and rest heights; applicability guards are '
        'counted.',
        'DESIGN.md §2 C06'),
    'C07': (
        'relational monitors: vmapped vs solo, jit vs eager, and the same '
        'batch with all other members changed (bitwise), for pipelines and '
        'wrapped environments',
        'Batch members of generated models, of the scripted environment and '
        'of two real environments on three backends are compared with solo '
        'runs and must be bitwise unchanged when other members change, incl. '
        'across episode ends; domain-randomised members equal a solo env '
        'built from their system.',
        'Solver-active generalized members are compared at solver tolerance.',
        'DESIGN.md §2 C07'),
    'C08': (
        'round-trip monitor on forward/world_to_joint/inverse + '
        'reported-vs-recomputed coordinates after spring/positional steps',
        'q (and qd for free links / single hinges) must round-trip on the '
        'claimed orthogonal invertible stacks; all other classes are compared '
        'and classified (K2a/b/c); reported (q, qd) after a step must equal '
        'the inverse image of reported (x, xd).',
        'Classification by stack signature from the generator spec.',
        'DESIGN.md §2 C08'),
    'C12': (
        'order-of-convergence invariant: four-point Richardson extrapolation '
        'of the energy / momentum drift to dt -> 0, energy from MuJoCo',
        'For conservative generated models the drift over a fixed horizon at '
        'dt, dt/2, dt/4, dt/8 must extrapolate to zero (<= 2% of the largest '
        'drift; observed <= 0.2% over 420 models).',
        "Energy and momentum are MuJoCo's at brax's (q, qd).",
        'DESIGN.md §2 C12'),
    'C16': (
        'trajectory invariants on wrapped rollouts of every registered '
        'environment/backend: sizes, done at reset, determinism, finiteness, '
        'unit quaternions (float32)',
        'All combinations of the 7 cheap environments plus a seed-rotated '
        'third of the 4 expensive ones (quick), or all 33 (thorough), are '
        'rolled out under uniform, i.i.d. bang-bang and held bang-bang '
        'actions; the reset state and every step are checked.',
        'float32 as shipped; unit quaternion tolerance 2e-6 (unchanged tree '
        '<= 2e-7).',
        'DESIGN.md §2 C16'),
    'C09': (
        'algebraic-law monitors on the real functions: exact integer-lattice '
        'evaluation (Schwartz-Zippel) + float64 residuals',
        'Every law of the statement is evaluated through jit(vmap) of the real '
        'brax.math/base/com functions on hundreds (quick) to tens of thousands '
        '(thorough) of inputs; polynomial identities are compared with == on '
        'integer inputs where float64 is exact, so a wrong sign/term cannot '
        'hide in a tolerance.',
        'Trusts IEEE-754 exactness below 2^53 and the textbook form of the '
        'identities (with |q|^2 factors for non-unit quaternions).',
        'DESIGN.md §2 C09'),
    'C10': (
        'reference-model monitor: closed-form primitive geometry (numpy) vs '
        'every row of contact.get',
        'Each contact row of generated plane/sphere/capsule scenes is compared '
        'with closed-form distances, normal direction, owning links and mean '
        'elasticity computed from the scene spec alone; held on the scenes '
        'and poses generated.',
        'Trusts the closed forms (point-segment, segment-segment); capsule '
        'normals are checked to 6e-3 rad because mjx regularises them.',
        'DESIGN.md §2 C10'),
    'C11': (
        'reference-model monitor (MuJoCo qfrc_actuator) + monotonicity sweeps '
        'on actuator.to_tau',
        'to_tau is compared with the reference engine on every generated '
        '(model, state, control), with exact-zero and monotone/constant/'
        'saturation sweeps through the range bounds.',
        'Trusts MuJoCo 3.13 mj_forward for the same compiled model.',
        'DESIGN.md §2 C11'),
    'C13': (
        'reference-model monitor: MuJoCo on the unfused document vs MuJoCo on '
        'mjcf.fuse_bodies(document), matched by element name',
        'Geoms, fromto end points, sites, jointed bodies, joint-space inertia '
        'and bias of generated documents with nested jointless bodies are '
        'compared before/after fusing at random joint states.',
        'Trusts MuJoCo welding of static bodies; %f rewriting bounds the '
        'agreement at 5e-5.',
        'DESIGN.md §2 C13'),
    'C14': (
        'input fault injection (one unsupported feature at a random element) '
        '+ structural reference from the generator spec and MuJoCo poses',
        'Each of 24 unsupported-feature variants is injected at random '
        'eligible elements of generated models and must be refused by loads '
        'or by all three pipeline inits; accepted models are compared field '
        'by field with counts/addresses recomputed from the spec.',
        'The feature list is the one in the property statement; spec-side '
        'address arithmetic follows MuJoCo document order.',
        'DESIGN.md §2 C14'),
    'C15': (
        'history checker: recorded wrapper outputs of a scripted environment '
        'vs an independent episode automaton; exhaustive over termination '
        'schedules',
        'All 256 period-8 termination schedules x episode_length 1-6 x '
        'action_repeat 1-3 are run through the real training.wrap + '
        'EvalWrapper as one vmapped batch and every wrapped step is compared '
        'with the automaton; Evaluator, generate_unroll and envs.create are '
        'sampled.',
        'The scripted environment and the automaton (vf/scripted_env.py) are '
        'trusted; mid-repeat terminations leave done unspecified.',
        'DESIGN.md §2 C15'),
    'C17': (
        'history checker against a list-based reference queue; exhaustive '
        'depth-first enumeration of operation sequences with unique record ids',
        'Plain queues: every operation sequence up to depth 5 (quick) / 7 '
        '(thorough) for capacity 1-5, batch 1-4, cyclic or not, is executed on '
        'the real object and compared (returned ids, size, refusals, drain); '
        'uniform, pytree and 2-4-shard pmap/pjit queues by random histories.',
        'Reference queue semantics as stated in the property; the real '
        "object's host-side counter is saved/restored on backtracking.",
        'DESIGN.md §2 C17'),
    'C18': (
        'reference-model monitor: numpy population statistics of the '
        'concatenated data vs running_statistics over generated update '
        'histories',
        'Count, mean, std, partition invariance, weight-equals-repetition, '
        'clipping, normalize/denormalize round trip and integer pass-through '
        'are checked on generated nested structures and partitions.',
        'Round-off model: mean 1e-9 relative, variance 1e-12*(mean^2+var).',
        'DESIGN.md §2 C18'),
    'C19': (
        'reference-model monitor: O(T^2) definition of GAE in numpy + two '
        'closed forms; exhaustive mask patterns for T<=4',
        'compute_gae is compared with the defining double sum on all 3^T '
        'mask patterns for T<=4 and random cases up to T=12, plus lambda=1 '
        'Monte-Carlo and lambda=0 TD forms and an exact-zero gradient check.',
        'The defining sum as written in DESIGN.md is the reference.',
        'DESIGN.md §2 C19'),
    'C20': (
        'reference-model monitor: numpy density / log-Jacobian closed forms, '
        'Gauss-Legendre quadrature, reparameterisation and PPO inference '
        'recomputed independently',
        'NormalTanhDistribution and make_inference_fn outputs are compared '
        'with independent closed forms over generated parameters incl. the '
        'range end points; the squashed density is integrated numerically.',
        'jax.random.normal(key, shape) is the draw used for sampling.',
        'DESIGN.md §2 C20'),
}

BUILT = sorted(CHECKS)
ALL = ['C%02d' % i for i in range(1, 21)]


def main():
  checks = []
  for pid in BUILT:
    tech, text, note, ref = CHECKS[pid]
    checks.append({
        'property_id': pid,
        'quick_cmd': './check %s --tier quick' % pid,
        'thorough_cmd': './check %s --tier thorough' % pid,
        'evidence_file': 'evidence/%s.json' % pid,
        'replay_cmd_template': './check %s --replay {path}' % pid,
        'engine': 'vf-runtime-monitors',
        'level_claimed': {'category': 'exploration', 'text': text,
                          'design_ref': ref},
        'level_note': note,
        'technique': tech,
    })
  na = [{'property_id': p,
         'reason': 'check not built yet in this round (planned: runtime '
                   'monitor per DESIGN.md §2); not claimed until its monitor '
                   'exists and is silent on the repaired tree'}
        for p in ALL if p not in BUILT]
  man = {
      'version': 1,
      'setup_cmd': './setup.sh',
      'hooks': {
          'guard': 'BRAX_VERIF',
          'enable': 'none needed: monitors attach at function boundaries from '
                    'the harness; no instrumentation was added to google/brax '
                    '(BRAX_VERIF is declared and unused)',
          'baseline_off_cmd': 'cd /repo && /venv/bin/python -m pytest -ra -q '
                              '-p no:cacheprovider --timeout=900 '
                              '--continue-on-collection-errors',
          'source_commits': [],
          'add_only': True,
      },
      'engines': [{
          'name': 'vf-runtime-monitors',
          'path': 'vf/',
          'serves_properties': BUILT,
          'kind_free_text': 'runtime monitoring: reference-model, invariant, '
                            'relational and history monitors over executions '
                            'of the real brax code on generated workloads',
      }],
      'checks': checks,
      'not_applicable': na,
      'notes': 'See DESIGN.md. known_findings.json lists recorded defects '
               '(known) and repaired ones (fixed). Exit 2 = inconclusive '
               '(a monitor saw fewer events than its floor).',
  }
  with open(os.path.join(HERE, 'MANIFEST.json'), 'w') as f:
    json.dump(man, f, indent=1)
  print('MANIFEST.json: %d checks, %d not_applicable' % (len(checks), len(na)))


if __name__ == '__main__':
  main()
