#!/usr/bin/env python3
"""Regenerates MANIFEST.json from the table below (kept valid at all times)."""
import json
import os

HERE = os.path.dirname(os.path.dirname(os.path.abspath(__file__)))

# id -> (technique, level text, level note, design ref)
CHECKS = {
    'C09': (
        'algebraic-law monitors on the real functions: exact integer-lattice '
        'evaluation (Schwartz-Zippel) + float64 residuals',
        'Every law of the statement is evaluated through jit(vmap) of the real '
        'brax.math/base/com functions on hundreds (quick) to tens of thousands '
        '(thorough) of inputs; polynomial identities are compared with == on '
        'integer inputs where float64 is exact, so a wrong sign/term cannot '
        'hide in a tolerance.',
        'Trusts IEEE-754 exactness below 2^53 and the textbook form of the '
        'identities (with |q|^2 factors for non-unit quaternions).',
        'DESIGN.md §2 C09'),
}

BUILT = sorted(CHECKS)
ALL = ['C%02d' % i for i in range(1, 21)]


def main():
  checks = []
  for pid in BUILT:
    tech, text, note, ref = CHECKS[pid]
    checks.append({
        'property_id': pid,
        'quick_cmd': './check %s --tier quick' % pid,
        'thorough_cmd': './check %s --tier thorough' % pid,
        'evidence_file': 'evidence/%s.json' % pid,
        'replay_cmd_template': './check %s --replay {path}' % pid,
        'engine': 'vf-runtime-monitors',
        'level_claimed': {'category': 'exploration', 'text': text,
                          'design_ref': ref},
        'level_note': note,
        'technique': tech,
    })
  na = [{'property_id': p,
         'reason': 'check not built yet in this round (planned: runtime '
                   'monitor per DESIGN.md §2); not claimed until its monitor '
                   'exists and is silent on the repaired tree'}
        for p in ALL if p not in BUILT]
  man = {
      'version': 1,
      'setup_cmd': './setup.sh',
      'hooks': {
          'guard': 'BRAX_VERIF',
          'enable': 'none needed: monitors attach at function boundaries from '
                    'the harness; no instrumentation was added to google/brax '
                    '(BRAX_VERIF is declared and unused)',
          'baseline_off_cmd': 'cd /repo && /venv/bin/python -m pytest -ra -q '
                              '-p no:cacheprovider --timeout=900 '
                              '--continue-on-collection-errors',
          'source_commits': [],
          'add_only': True,
      },
      'engines': [{
          'name': 'vf-runtime-monitors',
          'path': 'vf/',
          'serves_properties': BUILT,
          'kind_free_text': 'runtime monitoring: reference-model, invariant, '
                            'relational and history monitors over executions '
                            'of the real brax code on generated workloads',
      }],
      'checks': checks,
      'not_applicable': na,
      'notes': 'See DESIGN.md. known_findings.json lists recorded defects '
               '(known) and repaired ones (fixed). Exit 2 = inconclusive '
               '(a monitor saw fewer events than its floor).',
  }
  with open(os.path.join(HERE, 'MANIFEST.json'), 'w') as f:
    json.dump(man, f, indent=1)
  print('MANIFEST.json: %d checks, %d not_applicable' % (len(checks), len(na)))


if __name__ == '__main__':
  main()
