#!/bin/bash
# Run every registered quick (or thorough) check sequentially; summary line each.
cd "$(dirname "$0")/.."
tier=${1:-quick}
for p in $(python3 -c "import json;print(' '.join(c['property_id'] for c in json.load(open('MANIFEST.json'))['checks']))"); do
  t0=$(date +%s)
  out=$(./check $p --tier $tier 2>&1)
  rc=$?
  echo "$p rc=$rc $(( $(date +%s) - t0 ))s $(echo "$out" | grep -E '^(HELD|VIOLATION|INCONCLUSIVE)' | head -1)"
  echo "$out" | grep -E '^KNOWN-FINDING' | cut -c1-160
done
