#!/usr/bin/env python3
"""Self-test helper: run a check against a deliberately broken scratch copy.

  tools/mutate.py C15 'brax/envs/wrappers/training.py' 'steps >= episode_length' 'steps > episode_length' [--all]

Copies /repo's working tree (without .git) to a scratch directory under /tmp,
replaces OLD by NEW in FILE (first occurrence unless --all; must occur), runs
`./check ID --tier quick --no-evidence` with VF_REPO pointing at the copy,
prints the verdict and removes the copy. Never touches /repo.

  tools/mutate.py C15 --patch some.diff     applies a unified diff instead.
"""
import os
import shutil
import subprocess
import sys
import tempfile

HERE = os.path.dirname(os.path.dirname(os.path.abspath(__file__)))


def main():
  args = sys.argv[1:]
  prop = args[0]
  tier = 'quick'
  if '--thorough' in args:
    tier = 'thorough'
    args.remove('--thorough')
  tmp = tempfile.mkdtemp(prefix='vfmut_')
  dst = os.path.join(tmp, 'repo')
  try:
    shutil.copytree('/repo', dst, ignore=shutil.ignore_patterns(
        '.git', '__pycache__', 'v1', '*.ipynb', 'MUJOCO_LOG.TXT'))
    if args[1] == '--patch':
      subprocess.check_call(['patch', '-p1', '-s', '-d', dst, '-i',
                             os.path.abspath(args[2])])
    else:
      path, old, new = args[1], args[2], args[3]
      p = os.path.join(dst, path)
      s = open(p).read()
      if old not in s:
        print('MUTATION DID NOT APPLY: %r not in %s' % (old, path))
        return 3
      s = s.replace(old, new) if '--all' in args else s.replace(old, new, 1)
      open(p, 'w').write(s)
    env = dict(os.environ, VF_REPO=dst)
    r = subprocess.run([os.path.join(HERE, 'check'), prop, '--tier', tier,
                        '--no-evidence'], env=env, capture_output=True,
                       text=True)
    lines = [l for l in r.stdout.splitlines()
             if l.startswith(('VIOLATION', 'HELD', 'INCONCLUSIVE',
                              'KNOWN-FINDING'))]
    print('exit=%d' % r.returncode)
    for l in lines[:2]:
      print(' ', l[:200])
    if r.returncode not in (0, 1):
      print(r.stdout[-1500:])
      print(r.stderr[-1500:])
    return 0 if r.returncode == 1 else 1
  finally:
    shutil.rmtree(tmp, ignore_errors=True)


if __name__ == '__main__':
  sys.exit(main())
