"""Helpers shared by the physics monitors (model loading, MuJoCo reference)."""
import numpy as np


def load(xml):
  from brax.io import mjcf
  return mjcf.loads(xml)


def mj_forward_ref(mj, q, qd, ctrl=None):
  """Reference engine quantities at (q, qd[, ctrl])."""
  import mujoco
  d = mujoco.MjData(mj)
  d.qpos[:] = q
  d.qvel[:] = qd
  if ctrl is not None and mj.nu:
    d.ctrl[:] = ctrl
  mujoco.mj_forward(mj, d)
  return d


def body_velocities(mj, d):
  """World-frame (ang, vel) of every non-world body origin."""
  import mujoco
  out = np.zeros((mj.nbody - 1, 6))
  for i in range(1, mj.nbody):
    v = np.zeros(6)
    mujoco.mj_objectVelocity(mj, d, mujoco.mjtObj.mjOBJ_XBODY, i, v, 0)
    out[i - 1] = v
  return out[:, :3], out[:, 3:]


def full_m(mj, d):
  import mujoco
  m = np.zeros((mj.nv, mj.nv))
  mujoco.mj_fullM(mj, d, m)
  return m


def quat_err(a, b):
  """Row-wise quaternion distance up to sign."""
  a, b = np.asarray(a), np.asarray(b)
  return np.minimum(np.abs(a - b).max(-1), np.abs(a + b).max(-1))


def finite(*arrays):
  return all(np.isfinite(np.asarray(a)).all() for a in arrays)


PIPELINES = ('generalized', 'spring', 'positional')


def pipeline(name):
  import importlib
  return importlib.import_module('brax.%s.pipeline' % name)
