"""C17 — replay queues vs a list-based reference queue.

History checker: every init / insert / sample / size call on the real object
is an event; each inserted record carries a unique id, so a returned record
names the insert it came from. The reference model is a Python list.
Plain queues are enumerated exhaustively (depth-first over the prefix tree of
all operation sequences); sharded wrappers and large / pytree queues are
driven by random histories.
"""
import numpy as np

PROP = 'C17'
X64 = False  # as shipped (float32 / int32 records)
EXTRA_XLA_FLAGS = '--xla_force_host_platform_device_count=4'
EXHAUSTIVE = True
EXHAUSTIVE_SCOPE = (
    'plain Queue: all operation sequences of length <= D over {insert k '
    '(1<=k<=N), sample} for N in 1..5, B in 1..4, cyclic and non-cyclic (D=5 '
    'quick, D=7 thorough), each leaf drained through the API; sharded '
    'wrappers, uniform queue and pytree/large queues are sampled, not '
    'enumerated')
RULE = ('histories of init/insert/sample/size on the real objects, records '
        'with unique ids. One event = one operation whose outcome (returned '
        'ids, size, refusal) was compared with the list model. distinct = '
        'distinct operation-sequence prefixes; non-trivial = the history '
        'overflowed the capacity or sampled at least once')
ASSUMPTIONS = [
    'reference queue: list of the most recent N ids + cursor; overflow drops '
    'the oldest r and moves the cursor back by r (clamped at 0); cyclic '
    'indices modulo len(held); plain refuses when fewer than B remain',
    'the host-side availability counter of the real object is saved and '
    'restored (its own value) when the depth-first search backtracks',
]


def config(tier):
  return {'workers': 14, 'job_timeout': 1500 if tier == 'quick' else 3000,
          'wall_cap': 6000}


def plan(tier, seed):
  depth = 5 if tier == 'quick' else 7
  jobs = []
  for n in range(1, 6):
    for b in range(1, 5):
      for cyc in (False, True):
        jobs.append({'kind': 'dfs', 'N': n, 'B': b, 'cyclic': cyc,
                     'depth': depth, 'seed': seed})
  # biggest trees first
  jobs.sort(key=lambda j: -j['N'])
  nrand = 6 if tier == 'quick' else 60
  for i in range(nrand):
    jobs.append({'kind': 'random_plain', 'idx': i, 'seed': seed,
                 'length': 40})
    jobs.append({'kind': 'uniform', 'idx': i, 'seed': seed, 'length': 40})
  for wrapper in ('pmap', 'pjit'):
    for d in (2, 3, 4):
      for i in range(3 if tier == 'quick' else 12):
        jobs.append({'kind': 'sharded', 'wrapper': wrapper, 'D': d, 'idx': i,
                     'seed': seed, 'length': 14 if tier == 'quick' else 40})
  return jobs


def floors(tier):
  q = tier == 'quick'
  return {'ev:plain_sample_matches_model': 15000 if q else 500000,
          'ev:plain_size_matches_model': 60000 if q else 2000000,
          'ev:plain_refusal_matches_model': 2500 if q else 40000,
          'ev:plain_drain_matches_model': 10000 if q else 300000,
          'ev:uniform_returns_held_records': 50 if q else 500,
          'ev:uniform_deterministic_in_key': 50 if q else 500,
          'ev:sharded_sample_matches_model': 30 if q else 400,
          'ev:oversized_insert_refused': 40,
          'ev:pytree_sample_matches_model': 30 if q else 300,
          'ev:sharded_uniform_returns_shard_records': 10 if q else 100}


class Model:
  """Reference FIFO queue."""

  def __init__(self, n, b, cyclic):
    self.n, self.b, self.cyclic, self.held, self.cur = n, b, cyclic, [], 0

  def insert(self, ids):
    self.held += list(ids)
    r = len(self.held) - self.n
    if r > 0:
      self.held = self.held[r:]
      self.cur = max(0, self.cur - r)

  def avail(self):
    return len(self.held) if self.cyclic else len(self.held) - self.cur

  def sample(self):
    if self.avail() < self.b:
      return None
    n = len(self.held)
    out = [self.held[(self.cur + i) % n] for i in range(self.b)]
    self.cur = (self.cur + self.b) % n if self.cyclic else self.cur + self.b
    return out

  def copy(self):
    m = Model(self.n, self.b, self.cyclic)
    m.held, m.cur = list(self.held), self.cur
    return m


def run(job, mon):
  import jax
  from jax import numpy as jp
  from brax.training import replay_buffers as rb
  kind = job['kind']

  if kind == 'dfs':
    n, b, cyc, depth = job['N'], job['B'], job['cyclic'], job['depth']
    q = rb.Queue(n, jp.zeros((), jp.int32), b, cyclic=cyc)
    ins = jax.jit(q.insert_internal)
    smp = jax.jit(q.sample_internal)
    st0 = q.init(jax.random.PRNGKey(0))
    nid = [1]
    cfg = dict(N=n, B=b, cyclic=cyc)
    sampled_path = []

    def real_sample(st):
      """sample() through the public protocol: check then internal."""
      try:
        q.check_can_sample(st, 1)
      except ValueError:
        return st, None
      st2, got = smp(st)
      return st2, [int(v) for v in np.asarray(got)]

    def drain(st, m, path):
      """Observe what is still held, through the API only."""
      size = q._size  # the object's own host-side counter, restored below
      m = m.copy()
      rounds = (len(m.held) // b + 2) if cyc else (n // b + 2)
      ok = True
      seq = []
      for _ in range(rounds):
        exp = m.sample()
        st, got = real_sample(st)
        seq.append(got)
        if got != exp:
          ok = False
          break
      q._size = size
      mon.check('plain_drain_matches_model', ok,
                lambda: dict(cfg, path=path, drained=seq, model_held=m.held,
                             model_cursor=m.cur))

    def dfs(st, m, d, path, overflowed, sampled):
      if d == depth:
        drain(st, m, path)
        return
      size = q._size
      for op in list(range(1, n + 1)) + ['s']:
        q._size = size
        m2 = m.copy()
        p2 = path + [op]
        if op == 's':
          exp = m2.sample()
          st2, got = real_sample(st)
          if exp is None:
            mon.check('plain_refusal_matches_model', got is None,
                      lambda: dict(cfg, path=p2, got=got, model_held=m.held,
                                   model_cursor=m.cur))
          else:
            mon.check('plain_sample_matches_model', got == exp,
                      lambda: dict(cfg, path=p2, got=got, expected=exp,
                                   model_held=m.held, model_cursor=m.cur))
          ov, sa = overflowed, True
        else:
          ids = list(range(nid[0], nid[0] + op))
          nid[0] += op
          m2.insert(ids)
          arr = jp.array(ids, jp.int32)
          q.check_can_insert(st, arr, 1)
          st2 = ins(st, arr)
          ov = overflowed or len(m.held) + op > n
          sa = sampled
        sz = int(q.size(st2))
        mon.check('plain_size_matches_model', sz == m2.avail(),
                  lambda: dict(cfg, path=p2, size=sz, model_avail=m2.avail(),
                               model_held=m2.held, model_cursor=m2.cur))
        mon.distinct('%d/%d/%d/%s' % (n, b, cyc, p2), ov or sa)
        if len(sampled_path) < 1 and d == depth - 1 and ov and sa:
          sampled_path.append(p2)
          mon.sample(dict(cfg, ops=p2, note='insert k = k fresh ids; s = '
                          'sample', final_model_held=m2.held,
                          final_model_cursor=m2.cur))
        dfs(st2, m2, d + 1, p2, ov, sa)
      q._size = size

    dfs(st0, Model(n, b, cyc), 0, [], False, False)
    # oversized insert must be refused and change nothing
    q2 = rb.Queue(n, jp.zeros((), jp.int32), b, cyclic=cyc)
    st = q2.init(jax.random.PRNGKey(0))
    st = q2.insert(st, jp.arange(1, n + 1, dtype=jp.int32))
    before = (q2._size, int(q2.size(st)))
    try:
      q2.insert(st, jp.arange(100, 100 + n + 1, dtype=jp.int32))
      raised = False
    except ValueError:
      raised = True
    mon.check('oversized_insert_refused',
              raised and (q2._size, int(q2.size(st))) == before,
              dict(cfg, raised=raised))
    return

  rng = np.random.default_rng(
      [job['seed'], job['idx'], {'random_plain': 1, 'uniform': 2,
                                 'sharded': 3}[kind], job.get('D', 0)])

  def rec(ids):
    """pytree records carrying the id in every leaf."""
    ids = np.asarray(ids)
    return {'id': jp.array(ids, jp.int32),
            'obs': jp.array(np.stack([ids * 2.0, ids * 3.0 + 0.5], -1),
                            jp.float32),
            'nest': {'r': jp.array(ids * -1.0, jp.float32)}}

  def rec_ids(batch):
    ids = [int(v) for v in np.asarray(batch['id'])]
    a = np.asarray(batch['obs'])
    r = np.asarray(batch['nest']['r'])
    consistent = all(a[i, 0] == ids[i] * 2.0 and a[i, 1] == ids[i] * 3.0 + 0.5
                     and r[i] == -ids[i] for i in range(len(ids)))
    return ids, consistent

  dummy = jax.tree_util.tree_map(lambda x: x[0], rec([0]))

  if kind == 'random_plain':
    n = int(rng.integers(2, 65))
    b = int(rng.integers(1, min(n, 16) + 1))
    cyc = bool(rng.integers(0, 2))
    q = rb.Queue(n, dummy, b, cyclic=cyc)
    m = Model(n, b, cyc)
    st = q.init(jax.random.PRNGKey(1))
    nid = 1
    ops = []
    for _ in range(job['length']):
      if rng.random() < 0.5:
        k = int(rng.integers(1, n + 1))
        ids = list(range(nid, nid + k))
        nid += k
        st = q.insert(st, rec(ids))
        m.insert(ids)
        ops.append(k)
      else:
        exp = m.sample()
        ops.append('s')
        try:
          st, got = q.sample(st)
          got, cons = rec_ids(got)
        except ValueError:
          got, cons = None, True
        mon.check('pytree_sample_matches_model', got == exp and cons,
                  lambda: dict(N=n, B=b, cyclic=cyc, ops=list(ops), got=got,
                               expected=exp))
      sz = int(q.size(st))
      mon.check('pytree_size_matches_model', sz == m.avail(),
                lambda: dict(N=n, B=b, cyclic=cyc, ops=list(ops), size=sz,
                             model=m.avail()))
    mon.distinct('rp/%d/%d/%d/%s' % (n, b, cyc, ops), True)
    mon.sample(dict(kind=kind, N=n, B=b, cyclic=cyc, ops=ops))
    return

  if kind == 'uniform':
    n = int(rng.integers(1, 33))
    b = int(rng.integers(1, 9))
    q = rb.UniformSamplingQueue(n, dummy, b)
    st = q.init(jax.random.PRNGKey(int(rng.integers(0, 2**31 - 1))))
    held = []
    nid = 1
    ops = []
    # sampling before anything was inserted must not hand out a record
    try:
      _, got = q.sample(st)
      ids0, _ = rec_ids(got)
      refused = False
    except ValueError:
      refused, ids0 = True, None
    if not refused:
      mon.known('uniform-sample-from-empty-returns-unwritten-slot',
                dict(N=n, B=b, returned_ids=ids0),
                monitor='uniform_empty_sample')
    mon.count('ev:uniform_empty_sample')
    for _ in range(job['length']):
      if not held or rng.random() < 0.4:
        k = int(rng.integers(1, n + 1))
        ids = list(range(nid, nid + k))
        nid += k
        st = q.insert(st, rec(ids))
        held = (held + ids)[-n:]
        ops.append(k)
      else:
        ops.append('s')
        st_a, got_a = q.sample(st)
        st_b, got_b = q.sample(st)  # same state, same key
        ids_a, cons = rec_ids(got_a)
        ids_b, _ = rec_ids(got_b)
        mon.check('uniform_returns_held_records',
                  cons and len(ids_a) == b and all(i in held for i in ids_a),
                  lambda: dict(N=n, B=b, ops=list(ops), got=ids_a,
                               held=list(held)))
        mon.check('uniform_deterministic_in_key', ids_a == ids_b,
                  lambda: dict(N=n, B=b, ops=list(ops), a=ids_a, b=ids_b))
        st = st_a
      sz = int(q.size(st))
      mon.check('uniform_size_matches_model', sz == len(held),
                lambda: dict(N=n, B=b, ops=list(ops), size=sz,
                             held=len(held)))
    # faithful: every held record is reachable (missing one has p < 1e-12)
    draws = int(np.ceil(30 * len(held) / b)) + 30
    seen = set()
    s2 = st
    for _ in range(draws):
      s2, got = q.sample(s2)
      seen.update(rec_ids(got)[0])
    mon.check('uniform_covers_all_held', seen == set(held),
              lambda: dict(N=n, B=b, held=list(held), seen=sorted(seen),
                           draws=draws))
    mon.distinct('u/%d/%d/%s' % (n, b, ops), True)
    return

  if kind == 'sharded':
    d = job['D']
    if jax.device_count() < d:
      mon.note_inconclusive('only %d devices' % jax.device_count())
      return
    n = int(rng.integers(1, 6))
    b = int(rng.integers(1, 5))
    cyc = bool(rng.integers(0, 2))
    uniform = job['idx'] % 3 == 2
    if uniform:
      base = rb.UniformSamplingQueue(n, jp.zeros((), jp.int32), b)
    else:
      base = rb.Queue(n, jp.zeros((), jp.int32), b, cyclic=cyc)
    if job['wrapper'] == 'pmap':
      q = rb.PmapWrapper(base, local_device_count=d)
    else:
      mesh = jax.sharding.Mesh(np.array(jax.devices()[:d]), ('x',))
      q = rb.PjitWrapper(base, mesh=mesh, axis_names=('x',))
    if uniform:
      # every shard draws uniformly from what *it* holds; batches interleave
      st = q.init(jax.random.PRNGKey(3))
      held = [[] for _ in range(d)]
      nid = 1
      ops = []
      cfg = dict(wrapper=job['wrapper'], D=d, N=n, B=b, uniform=True)
      for _ in range(job['length']):
        if not held[0] or rng.random() < 0.5:
          k = int(rng.integers(1, n + 1))
          ids = list(range(nid, nid + k * d))
          nid += k * d
          st = q.insert(st, jp.array(ids, jp.int32))
          for s_ in range(d):
            held[s_] = (held[s_] + ids[s_::d])[-n:]
          ops.append(k)
        else:
          ops.append('s')
          st2, got = q.sample(st)
          _, again = q.sample(st)
          got = [int(v) for v in np.asarray(got)]
          again = [int(v) for v in np.asarray(again)]
          ok = len(got) == b * d and all(
              got[i * d + s_] in held[s_] for i in range(b)
              for s_ in range(d))
          mon.check('sharded_uniform_returns_shard_records',
                    ok and got == again,
                    lambda: dict(cfg, ops=list(ops), got=got, again=again,
                                 held=held))
          st = st2
        sz = int(q.size(st))
        mon.check('sharded_size_matches_model',
                  sz == sum(len(h) for h in held),
                  lambda: dict(cfg, ops=list(ops), size=sz,
                               model=sum(len(h) for h in held)))
      mon.distinct('shu/%s/%s' % (sorted(cfg.items()), ops), True)
      return
    models = [Model(n, b, cyc) for _ in range(d)]
    st = q.init(jax.random.PRNGKey(2))
    nid = 1
    ops = []
    cfg = dict(wrapper=job['wrapper'], D=d, N=n, B=b, cyclic=cyc)
    for _ in range(job['length']):
      if rng.random() < 0.5:
        k = int(rng.integers(1, n + 1))
        ids = list(range(nid, nid + k * d))
        nid += k * d
        st = q.insert(st, jp.array(ids, jp.int32))
        for s in range(d):
          models[s].insert(ids[s::d])
        ops.append(k)
      else:
        ops.append('s')
        exps = [m.sample() for m in models]
        if exps[0] is None:
          exp = None
        else:
          exp = [exps[s][i] for i in range(b) for s in range(d)]
        try:
          st, got = q.sample(st)
          got = [int(v) for v in np.asarray(got)]
        except ValueError:
          got = None
        mon.check('sharded_sample_matches_model', got == exp,
                  lambda: dict(cfg, ops=list(ops), got=got, expected=exp))
      sz = int(q.size(st))
      tot = sum(m.avail() for m in models)
      mon.check('sharded_size_matches_model', sz == tot,
                lambda: dict(cfg, ops=list(ops), size=sz, model=tot))
    mon.distinct('sh/%s/%s' % (sorted(cfg.items()), ops), True)
    mon.sample(dict(cfg, ops=ops))
    return
