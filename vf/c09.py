"""C09 — spatial algebra laws of brax.math / brax.base / brax.com.

(a) polynomial identities evaluated exactly on the integer lattice [-9, 9]^n
    (float64 holds every intermediate exactly, so `==` decides; by
    Schwartz-Zippel a false identity of degree <= 8 survives one uniform
    lattice point with probability <= 8/19);
(b) identities that divide or need unit quaternions, at float64 round-off.
All laws run through jit(vmap(...)) of the real functions.
"""
import numpy as np

PROP = 'C09'
X64 = True
RULE = ('inputs: integer points uniform on [-9,9]^n (exact laws) and unit '
        'quaternions / vectors in [-3,3]^3 (float laws); one event = one law '
        'evaluated at one input tuple; distinct = distinct (law, input tuple) '
        'hashes; non-trivial = no zero quaternion and no zero / collinear '
        'vector pair among the inputs')
ASSUMPTIONS = [
    'float64 arithmetic on integers below 2^53 is exact (IEEE-754), so exact '
    'laws are compared with ==',
    'laws are the textbook rigid-body spatial algebra identities with the '
    'explicit |q|^2 scale factors for non-unit quaternions',
]

EXACT_GROUPS = ['transform', 'quat', 'motion', 'cross', 'inertia']
FLOAT_GROUPS = ['rot3x3', 'energy', 'euler', 'fromto', 'misc', 'com']


def config(tier):
  return {'workers': 11, 'job_timeout': 600, 'wall_cap': 1500}


def plan(tier, seed):
  n = 400 if tier == 'quick' else 20000
  jobs = []
  for g in EXACT_GROUPS:
    jobs.append({'kind': 'exact', 'group': g, 'n': n, 'seed': seed})
  for g in FLOAT_GROUPS:
    jobs.append({'kind': 'float', 'group': g, 'n': n, 'seed': seed})
  return jobs


def floors(tier):
  n = 400 if tier == 'quick' else 20000
  f = {}
  for name in EXACT_LAWS + FLOAT_LAWS:
    f['ev:' + name] = n // 20 if name.startswith('com_') else n // 2
  return f


EXACT_LAWS = [
    'transform_assoc', 'transform_identity', 'transform_to_local',
    'rotate_product', 'quat_inverse', 'quat_norm_multiplicative',
    'vec_quat_mul', 'rotate_np_agrees', 'quat_mul_np_agrees',
    'motion_do_inv_do', 'motion_inv_do_do', 'power_duality',
    'cross_self_zero', 'cross_antisymmetric', 'cross_dual',
    'inertia_mul_linear', 'inertia_mul_symmetric', 'motion_dot_bilinear',
    'inv_rotate_is_rotate_inv',
]
FLOAT_LAWS = [
    'quat_to_3x3_matches_rotate', 'quat_to_3x3_orthonormal',
    'rotate_integer_dtype_vector',
    'kinetic_energy_invariant', 'inertia_do_symmetric',
    'euler_product_of_axis_rotations', 'euler_round_trip',
    'from_to_rotates', 'from_to_antiparallel', 'quat_rot_axis_rodrigues',
    'inv_3x3', 'orthogonals', 'com_round_trip', 'com_inv_inertia',
    'relative_quat', 'ang_to_quat', 'motion_do_composition',
    'force_do_composition',
]


def _ints(rng, n, k, nonzero=False):
  a = rng.integers(-9, 10, size=(n, k)).astype(np.float64)
  if nonzero:
    z = ~a.any(axis=1)
    a[z, 0] = 1.0
  return a


def _units(rng, n, k=4):
  a = rng.normal(size=(n, k))
  return a / np.linalg.norm(a, axis=1, keepdims=True)


def run(job, mon):
  import jax
  from jax import numpy as jp
  from brax import math as bm
  from brax import com as bcom
  from brax.base import Transform, Motion, Force, Inertia

  n = job['n']
  rng = np.random.default_rng(
      [job['seed'], (EXACT_GROUPS + FLOAT_GROUPS).index(job['group']), 9])
  kind, group = job['kind'], job['group']

  def T(p, q):
    return Transform(pos=p, rot=q)

  def evaluate(name, fn, inputs, exact, tol=1e-11, nontrivial=None):
    """fn(*inputs_row) -> (lhs, rhs) pytrees; one event per row."""
    n = np.asarray(inputs[0]).shape[0]
    f = jax.jit(jax.vmap(fn))
    lhs, rhs = f(*[jp.asarray(a) for a in inputs])
    la = np.concatenate([np.asarray(x).reshape(n, -1)
                         for x in jax.tree_util.tree_leaves(lhs)], axis=1)
    ra = np.concatenate([np.asarray(x).reshape(n, -1)
                         for x in jax.tree_util.tree_leaves(rhs)], axis=1)
    if exact:
      res = np.abs(la - ra).max(axis=1)
      bad = ~(la == ra).all(axis=1)
    else:
      scale = 1.0 + np.maximum(np.abs(la).max(axis=1), np.abs(ra).max(axis=1))
      res = np.abs(la - ra).max(axis=1) / scale
      bad = ~(res <= tol)
    mon.count('ev:' + name, n)
    mon.err(name, float(np.nanmax(res)) if np.isfinite(res).all()
            else float('inf'))
    nt = nontrivial if nontrivial is not None else np.ones(n, bool)
    cat = np.concatenate([np.asarray(a).reshape(n, -1) for a in inputs], 1)
    for i in range(n):
      mon.distinct('%s:%d' % (name, hash(cat[i].tobytes())), bool(nt[i]))
    if len(mon.samples) < 2:
      mon.sample({'law': name, 'inputs': [np.asarray(a)[0] for a in inputs],
                  'lhs': la[0], 'rhs': ra[0]})
    for i in np.nonzero(bad)[0][:3]:
      mon.violation(name, {'law': name, 'exact': exact,
                           'inputs': [np.asarray(a)[i] for a in inputs],
                           'lhs': la[i], 'rhs': ra[i]})
    if bad.any():
      mon.count('violations:' + name, int(bad.sum()) - min(3, int(bad.sum())))

  def nz(*qs):
    out = np.ones(len(qs[0]), bool)
    for q in qs:
      out &= np.asarray(q).reshape(len(q), -1).any(axis=1)
    return out

  if kind == 'exact':
    qa, qb, qc = (_ints(rng, n, 4) for _ in range(3))
    pa, pb, pc = (_ints(rng, n, 3) for _ in range(3))
    v1, v2, v3, v4 = (_ints(rng, n, 3) for _ in range(4))
    w1, w2, w3, w4 = (_ints(rng, n, 3) for _ in range(4))
    s1 = _ints(rng, n, 1)[:, 0]
    s2 = _ints(rng, n, 1)[:, 0]

    if group == 'transform':
      evaluate('transform_assoc',
               lambda pa, qa, pb, qb, pc, qc: (
                   T(pa, qa).do(T(pb, qb)).do(T(pc, qc)),
                   T(pa, qa).do(T(pb, qb).do(T(pc, qc)))),
               [pa, qa, pb, qb, pc, qc], True, nontrivial=nz(qa, qb, qc))

      def ident(pa, qa):
        z = Transform.zero()
        z = Transform(pos=z.pos.astype(pa.dtype), rot=z.rot.astype(qa.dtype))
        t = T(pa, qa)
        return (z.do(t), t.do(z)), (t, t)
      evaluate('transform_identity', ident, [pa, qa], True, nontrivial=nz(qa))

      def to_local(pa, qa, pb, qb):
        a, b = T(pa, qa), T(pb, qb)
        s = jp.dot(qa, qa)
        return a.do(b).to_local(a), T(s * s * pb, s * qb)
      evaluate('transform_to_local', to_local, [pa, qa, pb, qb], True,
               nontrivial=nz(qa, qb))

    if group == 'quat':
      evaluate('rotate_product',
               lambda v, p, q: (bm.rotate(v, bm.quat_mul(p, q)),
                                bm.rotate(bm.rotate(v, q), p)),
               [v1, qa, qb], True, nontrivial=nz(v1, qa, qb))
      evaluate('quat_inverse',
               lambda q: ((bm.quat_mul(q, bm.quat_inv(q)),
                           bm.quat_mul(bm.quat_inv(q), q)),
                          (jp.dot(q, q) * jp.array([1., 0, 0, 0]),) * 2),
               [qa], True, nontrivial=nz(qa))
      evaluate('quat_norm_multiplicative',
               lambda p, q: (jp.dot(bm.quat_mul(p, q), bm.quat_mul(p, q)),
                             jp.dot(p, p) * jp.dot(q, q)),
               [qa, qb], True, nontrivial=nz(qa, qb))
      evaluate('vec_quat_mul',
               lambda u, q: (bm.vec_quat_mul(u, q),
                             bm.quat_mul(jp.concatenate([jp.zeros(1), u]), q)),
               [v1, qa], True, nontrivial=nz(v1, qa))
      evaluate('inv_rotate_is_rotate_inv',
               lambda v, q: (bm.rotate(bm.inv_rotate(v, q), q),
                             jp.dot(q, q) ** 2 * v),
               [v1, qa], True, nontrivial=nz(v1, qa))
      # numpy twins of the jax functions (used by the mjcf loader)
      lhs = np.stack([bm.rotate_np(v1[i], qa[i]) for i in range(n)])
      evaluate('rotate_np_agrees',
               lambda v, q, l: (bm.rotate(v, q), l), [v1, qa, lhs], True,
               nontrivial=nz(v1, qa))
      lhs = np.stack([bm.quat_mul_np(qa[i], qb[i]) for i in range(n)])
      evaluate('quat_mul_np_agrees',
               lambda p, q, l: (bm.quat_mul(p, q), l), [qa, qb, lhs], True,
               nontrivial=nz(qa, qb))

    if group == 'motion':
      def do_inv(p, q, a, v):
        s = jp.dot(q, q)
        m = Motion(ang=a, vel=v)
        return T(p, q).inv_do(T(p, q).do(m)), Motion(s * s * a, s * s * v)
      evaluate('motion_do_inv_do', do_inv, [pa, qa, v1, w1], True,
               nontrivial=nz(qa, v1))

      def inv_do(p, q, a, v):
        s = jp.dot(q, q)
        m = Motion(ang=a, vel=v)
        return T(p, q).do(T(p, q).inv_do(m)), Motion(s * s * a, s * s * v)
      evaluate('motion_inv_do_do', inv_do, [pa, qa, v1, w1], True,
               nontrivial=nz(qa, v1))

      def power(p, q, a, v, fa, fv):
        m, f = Motion(ang=a, vel=v), Force(ang=fa, vel=fv)
        t = T(p, q)
        return t.do(m).dot(f), m.dot(t.do(f))
      evaluate('power_duality', power, [pa, qa, v1, w1, v2, w2], True,
               nontrivial=nz(qa, v1, w2))

    if group == 'cross':
      evaluate('cross_self_zero',
               lambda a, v: (Motion(a, v).cross(Motion(a, v)),
                             Motion(0 * a, 0 * v)),
               [v1, w1], True, nontrivial=nz(v1, w1))
      evaluate('cross_antisymmetric',
               lambda a, v, b, w: (Motion(a, v).cross(Motion(b, w)),
                                   -(Motion(b, w).cross(Motion(a, v)))),
               [v1, w1, v2, w2], True, nontrivial=nz(v1, w2))

      def dual(a, v, b, w, fa, fv):
        m, m2, f = Motion(a, v), Motion(b, w), Force(fa, fv)
        return m.cross(m2).dot(f), -m2.dot(m.cross(f))
      evaluate('cross_dual', dual, [v1, w1, v2, w2, v3, w3], True,
               nontrivial=nz(v1, v2, w3))

    if group == 'inertia':
      raw = rng.integers(-9, 10, size=(n, 3, 3)).astype(np.float64)
      isym = raw + np.transpose(raw, (0, 2, 1))
      mass = rng.integers(1, 10, size=n).astype(np.float64)

      def inert(i, mass, c):
        return Inertia(transform=T(c, jp.array([1., 0, 0, 0])), i=i, mass=mass)

      def lin(i, mass, c, a, v, b, w, s, t):
        it = inert(i, mass, c)
        m1, m2 = Motion(a, v), Motion(b, w)
        return it.mul(m1 * s + m2 * t), it.mul(m1) * s + it.mul(m2) * t
      evaluate('inertia_mul_linear', lin,
               [isym, mass, pa, v1, w1, v2, w2, s1, s2], True,
               nontrivial=nz(v1, v2))

      def sym(i, mass, c, a, v, b, w):
        it = inert(i, mass, c)
        m1, m2 = Motion(a, v), Motion(b, w)
        return m1.dot(it.mul(m2)), m2.dot(it.mul(m1))
      evaluate('inertia_mul_symmetric', sym,
               [isym, mass, pa, v1, w1, v2, w2], True, nontrivial=nz(v1, v2))

      def bil(a, v, b, w, c, u, s, t):
        m1, m2, m3 = Motion(a, v), Motion(b, w), Force(c, u)
        return (m1 * s + m2 * t).dot(m3), s * m1.dot(m3) + t * m2.dot(m3)
      evaluate('motion_dot_bilinear', bil, [v1, w1, v2, w2, v3, w3, s1, s2],
               True, nontrivial=nz(v1, v2, v3))
    return

  # ---------------------------------------------------------------- float laws
  qa, qb = _units(rng, n), _units(rng, n)
  pa, pb = rng.uniform(-3, 3, (n, 3)), rng.uniform(-3, 3, (n, 3))
  v1, v2 = rng.uniform(-3, 3, (n, 3)), rng.uniform(-3, 3, (n, 3))
  w1, w2 = rng.uniform(-3, 3, (n, 3)), rng.uniform(-3, 3, (n, 3))

  def rodrigues(axis, ang, v):
    return (v * jp.cos(ang) + jp.cross(axis, v) * jp.sin(ang)
            + axis * jp.dot(axis, v) * (1 - jp.cos(ang)))

  if group == 'rot3x3':
    # non-unit quaternions too: |q|^2 * M(q) v = rotate(v, q)
    qs = qa * rng.uniform(0.3, 3.0, (n, 1))
    evaluate('quat_to_3x3_matches_rotate',
             lambda q, v: (jp.dot(q, q) * (bm.quat_to_3x3(q) @ v),
                           bm.rotate(v, q)), [qs, v1], False)

    def orth(q):
      m = bm.quat_to_3x3(q)
      return (m @ m.T, jp.linalg.det(m)), (jp.eye(3), jp.ones(()))
    evaluate('quat_to_3x3_orthonormal', orth, [qs], False)
    # vectors given with an integer dtype (e.g. jp.array([0, 0, 1])) and a
    # float quaternion: the result is the float rotation, not a truncation
    vi = rng.integers(-3, 4, size=(n, 3)).astype(np.int32)
    evaluate('rotate_integer_dtype_vector',
             lambda q, v: (bm.rotate(v, q) * 1.0,
                           bm.quat_to_3x3(q) @ v.astype(q.dtype)),
             [qa, vi], False)

  if group == 'energy':
    raw = rng.uniform(-1, 1, (n, 3, 3))
    ipd = raw @ np.transpose(raw, (0, 2, 1)) + 0.1 * np.eye(3)
    mass = rng.uniform(0.1, 5, n)

    def ke(i, mass, p, q, a, v):
      it = Inertia(transform=Transform.zero(), i=i, mass=mass)
      it = it.replace(transform=T(jp.zeros(3), jp.array([1., 0, 0, 0])))
      x = T(p, q)
      moved = x.do(it)
      m = Motion(a, v)
      world = 0.5 * m.dot(moved.mul(m))
      ml = x.do(m)  # the same motion seen from the inertial frame
      local = 0.5 * ml.dot(it.mul(ml))
      return world, local
    evaluate('kinetic_energy_invariant', ke, [ipd, mass, pa, qa, v1, w1],
             False)

    def isym(i, mass, p, q):
      it = Inertia(transform=T(jp.zeros(3), jp.array([1., 0, 0, 0])), i=i,
                   mass=mass)
      moved = T(p, q).do(it)
      # parallel axis theorem written independently
      r = bm.quat_to_3x3(q)
      pa_ = mass * (jp.dot(p, p) * jp.eye(3) - jp.outer(p, p))
      return (moved.i, moved.mass, moved.transform.pos), (
          r @ i @ r.T + pa_, mass, mass * p)
    evaluate('inertia_do_symmetric', isym, [ipd, mass, pa, qa], False)

  if group == 'euler':
    e = rng.uniform(-179, 179, (n, 3))
    e[:, 1] = rng.uniform(-89, 89, n)

    def prod(e):
      r = e * jp.pi / 180
      qx = bm.quat_rot_axis(jp.array([1., 0, 0]), r[0])
      qy = bm.quat_rot_axis(jp.array([0., 1, 0]), r[1])
      qz = bm.quat_rot_axis(jp.array([0., 0, 1]), r[2])
      # intrinsic x-y'-z'': q = qx * qy * qz
      return bm.euler_to_quat(e), bm.quat_mul(bm.quat_mul(qx, qy), qz)
    evaluate('euler_product_of_axis_rotations', prod, [e], False)
    evaluate('euler_round_trip',
             lambda e: (bm.quat_to_euler(bm.euler_to_quat(e)),
                        e * jp.pi / 180), [e], False, tol=1e-9)

  if group == 'fromto':
    u1 = v1 / np.linalg.norm(v1, axis=1, keepdims=True)
    u2 = v2 / np.linalg.norm(v2, axis=1, keepdims=True)

    def ft(a, b):
      q = bm.from_to(a, b)
      return (bm.rotate(a, q), jp.dot(q, q)), (b, jp.ones(()))
    evaluate('from_to_rotates', ft, [u1, u2], False, tol=1e-9)
    evaluate('from_to_antiparallel', ft, [u1, -u1], False, tol=1e-9)
    ang = rng.uniform(-6, 6, n)
    evaluate('quat_rot_axis_rodrigues',
             lambda ax, t, v: (bm.rotate(v, bm.quat_rot_axis(ax, t)),
                               rodrigues(ax, t, v)), [u1, ang, v2], False)

  if group == 'misc':
    raw = rng.uniform(-2, 2, (n, 3, 3)) + 3 * np.eye(3)
    # inv_3x3 regularises with det + 1e-10: only well-conditioned inputs
    sing = np.abs(np.linalg.det(raw)) < 1.0
    raw[sing] = 3 * np.eye(3) + rng.uniform(-.5, .5, (int(sing.sum()), 3, 3))
    evaluate('inv_3x3',
             lambda m: (bm.inv_3x3(m) @ m, jp.eye(3)), [raw], False, tol=1e-8)
    u1 = v1 / np.linalg.norm(v1, axis=1, keepdims=True)
    # include axis-aligned normals (the branch boundary of orthogonals)
    u1[: min(n, 6)] = np.vstack([np.eye(3), -np.eye(3)])[: min(n, 6)]

    def orth(a):
      b, c = bm.orthogonals(a)
      g = jp.stack([a, b, c])
      return (g @ g.T, jp.dot(jp.cross(a, b), c)), (jp.eye(3), jp.ones(()))
    evaluate('orthogonals', orth, [u1], False)
    evaluate('relative_quat',
             lambda p, q, v: (bm.rotate(bm.rotate(v, p),
                                        bm.relative_quat(p, q)),
                              bm.rotate(v, q)), [qa, qb, v1], False)

    def a2q(w, v):
      q = bm.ang_to_quat(w)
      # q is the pure quaternion (0, w): q v q* - |w|^2-scaled reflection
      return q, jp.concatenate([jp.zeros(1), w])
    evaluate('ang_to_quat', a2q, [w1, v1], False)
    # composition needs unit quaternions (translations do not scale)
    def mcomp(pa, qa, pb, qb, a, v):
      m = Motion(ang=a, vel=v)
      ta, tb = T(pa, qa), T(pb, qb)
      return ta.do(tb).do(m), tb.do(ta.do(m))
    evaluate('motion_do_composition', mcomp, [pa, qa, pb, qb, v1, w1], False)

    def fcomp(pa, qa, pb, qb, a, v):
      f = Force(ang=a, vel=v)
      ta, tb = T(pa, qa), T(pb, qb)
      return ta.do(tb).do(f), ta.do(tb.do(f))
    evaluate('force_do_composition', fcomp, [pa, qa, pb, qb, v1, w1], False)

  if group == 'com':
    from brax.io import mjcf
    from vf import gen
    g = np.random.default_rng([job['seed'], 77])
    spec = gen.gen_model(g, n_links=4, actuators=False)
    sys_ = mjcf.loads(gen.to_xml(spec))
    nl = sys_.num_links()
    m = max(8, n // 10)  # states; every law event covers all 4 links
    xr = _units(rng, m * nl).reshape(m, nl, 4)
    xp = rng.uniform(-3, 3, (m, nl, 3))
    a = rng.uniform(-3, 3, (m, nl, 3))
    v = rng.uniform(-3, 3, (m, nl, 3))

    def rt(xp, xr, a, v):
      x, xd = Transform(xp, xr), Motion(a, v)
      x_i, xd_i = bcom.from_world(sys_, x, xd)
      x2, xd2 = bcom.to_world(sys_, x_i, xd_i)
      # the com-frame velocity is the velocity of the com point
      off = jax.vmap(bm.rotate)(sys_.link.inertia.transform.pos, xr)
      vcom = v + jax.vmap(jp.cross)(a, off)
      return (x2, xd2, xd_i.vel, x_i.pos), (x, xd, vcom, xp + off)

    def ii(xp, xr):
      x = Transform(xp, xr)
      inv = bcom.inv_inertia(sys_, x)

      def ref(li, xr):
        r = bm.quat_to_3x3(bm.quat_mul(xr, li.transform.rot))
        d = jp.diagonal(li.i) ** (1 - sys_.spring_inertia_scale)
        return r @ jp.diag(d) @ r.T
      full = jax.vmap(ref)(sys_.link.inertia, xr)
      return jax.vmap(jp.matmul)(inv, full), jp.tile(jp.eye(3), (nl, 1, 1))
    evaluate('com_round_trip', rt, [xp, xr, a, v], False)
    evaluate('com_inv_inertia', ii, [xp, xr], False, tol=1e-9)
    mon.count('com_link_poses', m * nl)
