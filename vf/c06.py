"""C06 — contacts and limits inert until reached; contacts only push.

Relational monitors (twin model without collisions / without limits) and
trajectory invariants (push-only, resting height, rebound ratio).
"""
import numpy as np

PROP = 'C06'
X64 = True
RULE = ('separated: generator models with collidable sphere/capsule geoms '
        'and a ground plane vs the same spec with collisions off, compared '
        'when the minimum candidate-contact distance is positive before and '
        'after the step and > 3x the largest geom displacement; limits: '
        'gentle generator models with ranges vs the same spec without any '
        'range, compared when every limited joint keeps a margin >= 10x its '
        'displacement; push-only: sphere/box/capsule at rest 2-20 mm inside '
        'the plane, any orientation, with/without gravity, one step; resting: '
        '3 s drop histories; rebound: spheres with elasticity 0-0.9. Three '
        'pipelines (rebound: spring, positional). One event = one '
        '(case, pipeline) oracle. distinct = (workload, case); non-trivial = '
        'relational cases that passed their guard, all trajectory cases')
ASSUMPTIONS = [
    'closed-form penetration depth: sphere z-r, capsule lower end - r, box '
    'lowest corner; rest height r (sphere, lying capsule) or half-height '
    '(flat box)',
    'the position-based pipeline legitimately applies negative normal '
    'impulses in its velocity pass, so "only pushed" is asserted on '
    'displacement / penetration, plus constraint-force sign (generalized) and '
    'impulse sign (spring)',
]
TOL = 1e-8


def config(tier):
  return {'workers': 14, 'job_timeout': 2400, 'wall_cap': 9000}


def plan(tier, seed):
  q = tier == 'quick'
  jobs = []
  for kind, n in (('separated', 10 if q else 120), ('limits', 12 if q else 144),
                  ('push', 10 if q else 120), ('resting', 6 if q else 60),
                  ('rebound', 6 if q else 60)):
    for i in range(n):
      jobs.append({'kind': kind, 'seed': seed, 'idx': i})
  # long histories first
  jobs.sort(key=lambda j: {'resting': 0, 'rebound': 1}.get(j['kind'], 2))
  return jobs


def floors(tier):
  k = 1 if tier == 'quick' else 10
  f = {}
  for p in ('generalized', 'spring', 'positional'):
    f['ev:separated_equals_no_collision:' + p] = 6 * k
    f['ev:limits_equal_no_limits:' + p] = 8 * k
    f['ev:push_only:' + p] = 16 * k
    f['ev:resting_height:' + p] = 5 * k
  for p in ('spring', 'positional'):
    f['ev:rebound_ratio:' + p] = 5 * k
  f['ev:unit_quaternion'] = 60 * k
  return f


def state_err(a, b):
  """Relative discrepancy of (q, qd, x, xd) tuples of numpy arrays."""
  e = 0.0
  for x, y in zip(a[:2], b[:2]):
    if x.size:
      e = max(e, np.abs(x - y).max() / (1 + np.abs(y).max()))
  e = max(e, np.abs(a[2] - b[2]).max())
  e = max(e, np.minimum(np.abs(a[3] - b[3]).max(-1),
                        np.abs(a[3] + b[3]).max(-1)).max())
  e = max(e, np.abs(a[4] - b[4]).max() / (1 + np.abs(b[4]).max()))
  e = max(e, np.abs(a[5] - b[5]).max() / (1 + np.abs(b[5]).max()))
  return float(e)


def qrot(q, v):
  w, u = q[0], q[1:]
  return 2 * np.dot(u, v) * u + (w * w - np.dot(u, u)) * v + 2 * w * np.cross(
      u, v)


def lowest_point(shape, size, quat):
  """Height of the lowest surface point with the centre at z=0."""
  if shape == 'sphere':
    return -size[0]
  if shape == 'capsule':
    ax = qrot(quat, np.array([0, 0, 1.]))
    return -abs(ax[2]) * size[1] - size[0]
  corners = np.array([[sx, sy, sz] for sx in (-1, 1) for sy in (-1, 1)
                      for sz in (-1, 1)]) * size
  return min(qrot(quat, c)[2] for c in corners)


def deepest_point(shape, size, quat):
  """Body-frame point whose world height is lowest (sphere / capsule: the
  centre of the lowest sphere; box: the lowest corner)."""
  if shape == 'sphere':
    return np.zeros(3)
  if shape == 'capsule':
    ax = qrot(quat, np.array([0, 0, 1.]))
    return np.array([0, 0, -np.sign(ax[2]) * size[1]]) if ax[2] else np.array(
        [0, 0, size[1]])
  corners = np.array([[sx, sy, sz] for sx in (-1, 1) for sy in (-1, 1)
                      for sz in (-1, 1)]) * size
  return corners[int(np.argmin([qrot(quat, c)[2] for c in corners]))]


def body_scene(shape, size, density, el, dt, grav=True):
  from vf import gen
  g = {'sphere': 'type="sphere" size="%s"' % gen.fmt(size[:1]),
       'box': 'type="box" size="%s"' % gen.fmt(size),
       'capsule': 'type="capsule" size="%s"' % gen.fmt(size[:2])}[shape]
  gv = '0 0 -9.81' if grav else '0 0 0'
  return ('<mujoco><option timestep="%r" gravity="%s"/>'
          '<custom><numeric name="elasticity" data="%r"/></custom>'
          '<worldbody><geom name="floor" type="plane" size="5 5 0.1"/>'
          '<body name="b" pos="0 0 0"><freejoint/><geom name="g" %s '
          'density="%r"/></body></worldbody></mujoco>') % (
              float(dt), gv, float(el), g, float(density))


def run(job, mon):
  import jax
  from jax import numpy as jp
  from brax import contact
  from vf import gen, phys
  kind, idx = job['kind'], job['idx']
  rng = np.random.default_rng(
      [job['seed'], idx, {'separated': 6, 'limits': 66, 'push': 666,
                          'resting': 6666, 'rebound': 66666}[kind]])

  def stepper(sys_, p):
    def f(q, qd, a):
      s0 = p.init(sys_, q, qd)
      s1 = p.step(sys_, s0, a)
      return ((s0.q, s0.qd, s0.x.pos, s0.x.rot, s0.xd.vel, s0.xd.ang),
              (s1.q, s1.qd, s1.x.pos, s1.x.rot, s1.xd.vel, s1.xd.ang))
    return jax.jit(f)

  def unit(name, rot, wit):
    e = float(np.abs(np.linalg.norm(rot, axis=-1) - 1).max())
    mon.err('unit_quaternion', e)
    mon.check('unit_quaternion', e <= 1e-9, lambda: dict(wit(), which=name,
                                                         err=e))

  if kind in ('separated', 'limits'):
    if kind == 'separated':
      spec = gen.gen_model(rng, collide=True, plane=True, max_geoms=1,
                           geom_types=('sphere', 'capsule'), max_links=4,
                           strength='gentle' if idx % 2 else 'wild')
      spec['plane_z'] = -6.0 if idx % 2 else float(rng.uniform(-2.5, -1.2))
      xa, xb = gen.to_xml(spec), gen.to_xml(spec, no_collide=True)
    else:
      for _ in range(20):
        # two thirds orthogonal invertible stacks: for other stacks the
        # joint coordinates reported by spring / positional are not the
        # inverse image of the pose (known finding K2 of C08), so "inside
        # the range" cannot be read off them and the guard rejects the case
        if idx % 4 in (1, 2):
          # single joints (slide or hinge) at the body origin, every one
          # limited, most of them with a range that does not contain 0
          spec = gen.gen_model(rng, strength='gentle', limit_prob=1.0,
                               n_links=int(rng.integers(1, 4)),
                               single_origin=True)
          for b_ in spec['bodies']:
            for j_ in b_['joints']:
              if 'range' in j_ and rng.random() < 0.7:
                a_, w_ = float(rng.uniform(0.1, 0.8)), float(
                    rng.uniform(0.3, 1.0))
                j_['range'] = ([a_, a_ + w_] if rng.random() < 0.5
                               else [-a_ - w_, -a_])
        elif idx % 4 == 3:
          # three-hinge stacks of either handedness, ranges on every axis
          spec = gen.gen_model(rng, strength='gentle', limit_prob=0.9,
                               n_links=int(rng.integers(1, 4)), ortho=True,
                               stack_kinds='hinge', min_stack=3)
        else:
          spec = gen.gen_model(rng, strength='gentle', limit_prob=0.6,
                               max_links=4, ortho=idx % 3 != 0,
                               stack_kinds='invertible' if idx % 3 else 'any')
        if any('range' in j for b in spec['bodies'] for j in b['joints']):
          break
      xa, xb = gen.to_xml(spec), gen.to_xml(spec, strip_limits=True)
    sa, sb = phys.load(xa), phys.load(xb)
    mj = sa.mj_model
    passed = False
    getc = jax.jit(lambda p, r: contact.get(
        sa, sa.link.transform.replace(pos=p, rot=r)).dist.min()
                   ) if kind == 'separated' else None
    for pname in phys.PIPELINES:
      p = phys.pipeline(pname)
      fa, fb = stepper(sa, p), stepper(sb, p)
      for s in range(3):
        if kind == 'separated':
          q, qd = gen.rand_state(rng, mj, qscale=1.0)
        else:
          q, qd = gen.state_inside_limits(rng, mj, frac=0.7, qscale=1.0,
                                          qdscale=0.3)
        a = rng.uniform(-1, 1, mj.nu)
        (a0, a1) = [[np.asarray(z) for z in t] for t in fa(
            jp.array(q), jp.array(qd), jp.array(a))]
        (b0, b1) = [[np.asarray(z) for z in t] for t in fb(
            jp.array(q), jp.array(qd), jp.array(a))]
        wit = lambda: dict(case=idx, seed=job['seed'], workload=kind,
                           pipeline=pname, xml_a=xa, xml_b=xb, q=q, qd=qd,
                           ctrl=a)
        if not phys.finite(*b1):
          # the reference twin itself blew up: nothing to compare with
          mon.count(kind + '_diverged:' + pname)
          continue
        if phys.finite(*a1):
          unit('with', a1[3], wit)
        # (a non-finite run under test against a finite reference falls
        # through to the comparison below and fails it if the guard holds)
        unit('without', b1[3], wit)
        if kind == 'separated':
          # the guard is evaluated on the *reference twin* (no collisions):
          # if its motion keeps every candidate pair separated by more than 3x
          # the largest displacement, nothing can have touched, and the run
          # with collisions must equal it. (Using the run under test in the
          # guard would let a defect that kicks separated bodies disqualify
          # its own witness.)
          d0 = float(getc(jp.array(b0[2]), jp.array(b0[3])))
          d1 = float(getc(jp.array(b1[2]), jp.array(b1[3])))
          dpos = np.linalg.norm(b1[2] - b0[2], axis=1)
          dang = 2 * np.arccos(np.clip(np.abs((b1[3] * b0[3]).sum(1)), 0, 1))
          disp = float((dpos + dang * 1.0).max())
          if not (d0 > 0 and d1 > 0 and min(d0, d1) > 3 * disp):
            mon.count('separated_guard_possibly_touching:' + pname)
            continue
          name = 'separated_equals_no_collision:' + pname
        else:
          # guard on the twin without limits only (same reason as above)
          ok = True
          for j in range(mj.njnt):
            if mj.jnt_limited[j]:
              ad = mj.jnt_qposadr[j]
              lo, hi = mj.jnt_range[j]
              q2 = float(b1[0][ad])
              dq = abs(q2 - q[ad])
              margin = min(q[ad] - lo, hi - q[ad], q2 - lo, hi - q2)
              ok = ok and margin >= 10 * dq
          if not ok:
            mon.count('limits_guard_possibly_reached:' + pname)
            continue
          name = 'limits_equal_no_limits:' + pname
        e = state_err(a1, b1)
        if not np.isfinite(e):
          e = float('inf')
        passed = True
        mon.err(name, e)
        mon.check(name, e <= TOL, lambda: dict(wit(), err=e, with_=a1[:2],
                                               without=b1[:2]))
    mon.distinct('%s|%d' % (kind, idx), passed)
    if idx == 0:
      mon.sample(dict(workload=kind, case=idx,
                      signatures=sorted(gen.stack_sig(b)
                                        for b in spec['bodies']),
                      plane_z=spec.get('plane_z')))
    return

  shape = str(rng.choice(['sphere', 'box', 'capsule'])) if (
      kind != 'rebound') else 'sphere'
  size = rng.uniform(0.05, 0.3, 3)
  density = float(rng.uniform(200, 3000))
  mon.distinct('%s|%d' % (kind, idx), True)

  if kind == 'push':
    quat = gen.rquat(rng)
    pen = float(rng.uniform(0.002, 0.02))
    low = lowest_point(shape, size, quat)
    z0 = -low - pen
    dt = 0.002
    for grav in (True, False):
      sys_ = phys.load(body_scene(shape, size, density, 0.0, dt, grav))
      gmag = 9.81 if grav else 0.0
      for pname in phys.PIPELINES:
        p = phys.pipeline(pname)

        def f(q, p=p, pname=pname):
          s0 = p.init(sys_, q, jp.zeros(6))
          s1 = p.step(sys_, s0, jp.zeros(0))
          extra = (s1.qf_constraint[:3] if pname == 'generalized'
                   else s1.xd_i.vel[0])
          return s1.x.pos[0], s1.x.rot[0], s1.xd.vel[0], extra
        pos, rot, vel, extra = [np.asarray(z) for z in jax.jit(f)(
            jp.array(np.concatenate([[0, 0, z0], quat])))]
        wit = lambda: dict(case=idx, seed=job['seed'], workload='push',
                           pipeline=pname, shape=shape, size=size,
                           density=density, quat=quat, penetration=pen,
                           gravity=grav, pos_after=pos, vel_after=vel)
        if not phys.finite(pos, rot, vel):
          mon.check('push_only:' + pname, False, lambda: dict(
              wit(), reason='non-finite state'))
          continue
        slack = gmag * dt * dt + 1e-9
        dz = float(pos[2] - z0)
        # the point that was deepest in the ground must not end up deeper
        # (an off-centre push rotates a box / tilted capsule, so *another*
        # corner may legitimately dip: asserting on the overall lowest point
        # fired on a box that was pushed up 4.8 mm at its deep corner)
        p0 = deepest_point(shape, size, quat)
        rn = rot / np.linalg.norm(rot)
        z_before = z0 + qrot(quat, p0)[2] - (size[0] if shape != 'box' else 0)
        z_after = pos[2] + qrot(rn, p0)[2] - (size[0] if shape != 'box' else 0)
        pen1 = -z_after
        ok = dz >= -slack and (z_after - z_before) >= -slack
        if pname == 'generalized':
          ok = ok and extra[2] >= -1e-9
        elif pname == 'spring':
          ok = ok and (extra[2] - 0.0 + gmag * dt) >= -1e-9
        mon.err('push_pen_increase:' + pname, max(0.0, pen1 - pen))
        mon.check('push_only:' + pname, ok,
                  lambda: dict(wit(), dz=dz, pen_after=pen1, extra=extra))
    mon.sample(dict(workload='push', case=idx, shape=shape, size=size,
                    penetration=pen, quat=quat))
    return

  if kind == 'resting':
    h = float(rng.uniform(0, 0.5))
    if shape == 'sphere':
      rest, quat = size[0], gen.rquat(rng)
    elif shape == 'box':
      rest, quat = size[2], np.array([1., 0, 0, 0])
    else:
      rest, quat = size[0], np.array([np.sqrt(.5), 0, np.sqrt(.5), 0])
    for pname in phys.PIPELINES:
      p = phys.pipeline(pname)
      dt = 0.002 if pname == 'generalized' else 0.001
      sys_ = phys.load(body_scene(shape, size, density, 0.0, dt))
      nsteps = int(3.0 / dt)

      def hist(q, p=p, sys_=sys_, nsteps=nsteps):
        st = p.init(sys_, q, jp.zeros(6))

        def f(s, _):
          s = p.step(sys_, s, jp.zeros(0))
          return s, (s.x.pos[0, 2], s.xd.vel[0], jp.abs(
              jp.linalg.norm(s.x.rot[0]) - 1))
        _, out = jax.lax.scan(f, st, None, nsteps)
        return out
      z, v, un = [np.asarray(a) for a in jax.jit(hist)(
          jp.array(np.concatenate([[0, 0, rest + h], quat])))]
      wit = lambda: dict(case=idx, seed=job['seed'], workload='resting',
                         pipeline=pname, shape=shape, size=size,
                         density=density, drop=h, rest_height=rest,
                         min_z_minus_rest=float(z.min() - rest),
                         final_z_minus_rest=float(z[-1] - rest),
                         final_v=v[-1])
      if not phys.finite(z, v):
        mon.check('resting_height:' + pname, False,
                  lambda: dict(wit(), reason='non-finite'))
        continue
      mon.err('resting_sink:' + pname, max(0.0, float(rest - z.min())))
      mon.err('resting_final_offset:' + pname, abs(float(z[-1] - rest)))
      mon.check('resting_never_sinks:' + pname, z.min() - rest >= -0.05, wit)
      # "comes to rest": the height no longer moves (late range <= 1 mm) and
      # the residual velocity is at most the per-step quantum g*dt that the
      # position-based pipeline reports while it holds a body on the ground
      late = z[-nsteps // 10:]
      # the spring pipeline's averaged Baumgarte impulses leave a steady
      # penetration of up to ~3 mm for thin heavy boxes / lying capsules
      # (2.8 mm worst over 100 thorough cases); generalized and positional
      # rest within 0.4 mm
      htol = 5e-3 if pname == 'spring' else 2e-3
      mon.check('resting_height:' + pname,
                abs(z[-1] - rest) <= htol and np.ptp(late) <= 1e-3
                and np.abs(v[-1]).max() <= 2 * 9.81 * dt + 1e-3, wit)
      mon.check('unit_quaternion', un.max() <= 1e-9, wit)
    mon.sample(dict(workload='resting', case=idx, shape=shape, size=size,
                    drop=h))
    return

  # rebound
  r = float(size[0])
  el = float(rng.uniform(0, 0.9))
  h = float(rng.uniform(0.2, 1.0))
  for pname in ('spring', 'positional'):
    p = phys.pipeline(pname)
    dt = 0.001
    sys_ = phys.load(body_scene('sphere', size, density, el, dt))
    nsteps = int(1.2 / dt)

    def hist(q, p=p, sys_=sys_, nsteps=nsteps):
      st = p.init(sys_, q, jp.zeros(6))

      def f(s, _):
        s = p.step(sys_, s, jp.zeros(0))
        return s, (s.x.pos[0, 2], s.xd.vel[0, 2])
      _, out = jax.lax.scan(f, st, None, nsteps)
      return out
    z, vz = [np.asarray(a) for a in jax.jit(hist)(
        jp.array([0, 0, r + h, 1, 0, 0, 0.]))]
    k = int(np.argmax(vz > 0)) if (vz > 0).any() else -1
    wit = lambda: dict(case=idx, seed=job['seed'], workload='rebound',
                       pipeline=pname, radius=r, elasticity=el, drop=h)
    if el < 0.02 and k <= 0:
      # no measurable rebound expected with (almost) zero elasticity
      mon.check('rebound_ratio:' + pname, True)
      continue
    if k <= 0:
      mon.check('rebound_ratio:' + pname, False,
                lambda: dict(wit(), reason='sphere never rebounded'))
      continue
    vin, vout = float(vz[:k].min()), float(vz[k:k + 5].max())
    ratio = -vout / vin
    lo, hi = (-0.02, 0.02) if pname == 'positional' else (-0.02, 0.2)
    mon.err('rebound_ratio_minus_elasticity:' + pname, abs(ratio - el))
    mon.check('rebound_ratio:' + pname, lo <= ratio - el <= hi,
              lambda: dict(wit(), v_in=vin, v_out=vout, ratio=ratio))
  mon.sample(dict(workload='rebound', case=idx, radius=r, elasticity=el,
                  drop=h))
