"""C05 — physics does not depend on how the scene is represented.

Three relational monitors over pairs of executions of the real pipelines:
rigid transform of the whole scene, sibling order, disconnected components.
"""
import numpy as np

PROP = 'C05'
X64 = True
RULE = ('rigid: all-roots-free generator models, uniform random rotation + '
        'translation in [-3,3]^3 applied to root poses, root linear '
        'velocities and gravity, 1-5 steps, two states per model; order: '
        'models with >= 3 bodies emitted with a random permutation of siblings '
        'at every level, results matched by name; components: two specs '
        'merged into one document vs each alone. All three pipelines. One '
        'event = one (model, pipeline, state) comparison. distinct = '
        '(workload, topology, signature multiset); non-trivial = the model '
        'has a non-free link (rigid), the permutation changed the link order '
        '(order), both components have joints (components)')
ASSUMPTIONS = [
    'free-joint angular velocity is body-local in brax/MuJoCo and is left '
    'unchanged by the scene rotation; linear root velocity and gravity rotate',
    'generalized components are compared only when no constraint row is '
    'active (the projected-gradient solver shares one step size across the '
    'whole model); others are counted',
    'trajectories with |qd| > 1e4 or non-finite are counted, not compared',
]
TOL = 1e-7


def config(tier):
  return {'workers': 14, 'job_timeout': 1800, 'wall_cap': 7000}


def plan(tier, seed):
  q = tier == 'quick'
  jobs = []
  for kind, n, per in (('rigid', 14 if q else 420, 1 if q else 10),
                       ('order', 8 if q else 210, 1 if q else 5),
                       ('components', 6 if q else 210, 1 if q else 5)):
    for i in range(0, n, per):
      jobs.append({'kind': kind, 'seed': seed, 'first': i, 'count': per})
  # extra rigid-transform cases for the generalized pipeline only, with the
  # default approximate mass-matrix inverse and fast motion (a frame-dependent
  # accept/restart decision in that iteration flips on ~1 model in 4)
  nf = 14 if q else 140
  for i in range(0, nf, 2):
    jobs.append({'kind': 'rigid', 'seed': seed, 'first': 1000 + i, 'count': 2,
                 'fast_only': True})
  return jobs


def floors(tier):
  k = 1 if tier == 'quick' else 25
  f = {}
  for p in ('generalized', 'spring', 'positional'):
    f['ev:rigid_transform:' + p] = 14 * k
    f['ev:sibling_order:' + p] = 3 * k
    f['ev:components:' + p] = 4 * k
  f['rigid_models_with_slide'] = 4 * k
  f['rigid_models_approximate_inverse'] = 12 * (1 if tier == 'quick' else 10)
  f['order_models_where_link_order_changed'] = 4 * k
  return f


def qmul(u, v):
  return np.array([
      u[0] * v[0] - u[1] * v[1] - u[2] * v[2] - u[3] * v[3],
      u[0] * v[1] + u[1] * v[0] + u[2] * v[3] - u[3] * v[2],
      u[0] * v[2] - u[1] * v[3] + u[2] * v[0] + u[3] * v[1],
      u[0] * v[3] + u[1] * v[2] - u[2] * v[1] + u[3] * v[0]])


def qrot(q, v):
  w, u = q[0], q[1:]
  return 2 * np.dot(u, v) * u + (w * w - np.dot(u, u)) * v + 2 * w * np.cross(
      u, v)


def joint_slices(mj):
  out = {}
  for j in range(mj.njnt):
    free = mj.jnt_type[j] == 0
    out[mj.joint(j).name] = (
        slice(mj.jnt_qposadr[j], mj.jnt_qposadr[j] + (7 if free else 1)),
        slice(mj.jnt_dofadr[j], mj.jnt_dofadr[j] + (6 if free else 1)))
  return out


def diverged(res):
  q, qd = res[0], res[1]
  return (not (np.isfinite(q).all() and np.isfinite(qd).all())) or (
      np.abs(qd).max() > 1e4 if qd.size else False)


def tame(res):
  q, qd = res[0], res[1]
  return bool(np.isfinite(q).all() and np.isfinite(qd).all()
              and (np.abs(qd).max() < 1e3 if qd.size else True))


def one_sided_divergence(res_a, res_b):
  """One representation blows up (non-finite or |qd| > 1e4) while the other
  stays tame (|qd| < 1e3): that is a discrepancy, not a shared divergence."""
  return (diverged(res_a) and tame(res_b)) or (diverged(res_b) and tame(res_a))


def compare_by_name(mj_a, res_a, mj_b, res_b):
  """Max discrepancy of per-joint and per-link results matched by name."""
  qa, qda, pa, ra, va, wa = res_a[:6]
  qb, qdb, pb, rb, vb, wb = res_b[:6]
  e = 0.0
  ja, jb = joint_slices(mj_a), joint_slices(mj_b)
  for n, (sq, sd) in ja.items():
    tq, td = jb[n]
    if sq.stop - sq.start == 7:
      e = max(e, np.abs(qa[sq][:3] - qb[tq][:3]).max())
      e = max(e, min(np.abs(qa[sq][3:] - qb[tq][3:]).max(),
                     np.abs(qa[sq][3:] + qb[tq][3:]).max()))
    else:
      e = max(e, np.abs(qa[sq] - qb[tq]).max())
    e = max(e, np.abs(qda[sd] - qdb[td]).max() / (1 + np.abs(qda).max()))
  for i in range(1, mj_a.nbody):
    k = mj_b.body(mj_a.body(i).name).id
    e = max(e, np.abs(pa[i - 1] - pb[k - 1]).max())
    e = max(e, min(np.abs(ra[i - 1] - rb[k - 1]).max(),
                   np.abs(ra[i - 1] + rb[k - 1]).max()))
    e = max(e, np.abs(va[i - 1] - vb[k - 1]).max() / (1 + np.abs(va).max()))
    e = max(e, np.abs(wa[i - 1] - wb[k - 1]).max() / (1 + np.abs(wa).max()))
  return float(e)


def run(job, mon):
  import jax
  from jax import numpy as jp
  from vf import gen, phys
  kind = job['kind']

  def runner(sys_, p, nsteps, with_gravity=False):
    def f(q, qd, a, g):
      s = sys_.replace(gravity=g) if with_gravity else sys_
      st = p.init(s, q, qd)

      def body(carry, _):
        st, act = carry
        st = p.step(s, st, a)
        if hasattr(st, 'qf_constraint'):
          act = act + jp.abs(st.qf_constraint).sum() + jp.abs(
              st.con_jac).sum()
        return (st, act), None
      (st, act), _ = jax.lax.scan(body, (st, jp.zeros(())), None,
                                  length=nsteps)
      return (st.q, st.qd, st.x.pos, st.x.rot, st.xd.vel, st.xd.ang, act)
    return jax.jit(f)

  def call(fn, q, qd, a, g):
    return [np.asarray(r) for r in fn(jp.array(q), jp.array(qd), jp.array(a),
                                      jp.array(g))]

  def free_rooted(rng, **kw):
    spec = gen.gen_model(rng, free_root=True, max_links=5, **kw)
    for b in spec['bodies']:
      if b['parent'] == -1 and not b['free']:
        b['free'] = True
        b['joints'] = []
    names = {j['name'] for b in spec['bodies'] for j in b['joints']}
    spec['acts'] = [a for a in spec['acts'] if a['joint'] in names]
    return spec

  for c in range(job['first'], job['first'] + job['count']):
    rng = np.random.default_rng(
        [job['seed'], c, {'rigid': 5, 'order': 55, 'components': 555}[kind]])
    nsteps = int(rng.integers(1, 6))

    if kind == 'rigid':
      spec = free_rooted(rng, strength='gentle' if c % 2 else 'wild')
      fast = c % 3 == 2 or bool(job.get('fast_only'))
      if fast:
        # the default approximate mass-matrix inverse (warm-started
        # Newton-Schulz) with fast motion: the regime where a frame-dependent
        # acceptance test in the iteration would show
        spec['exact_inv'] = False
        spec['timestep'] = 0.005
        nsteps = int(rng.integers(3, 6))
        mon.count('rigid_models_approximate_inverse')
      xml = gen.to_xml(spec)
      sys_ = phys.load(xml)
      mj = sys_.mj_model
      has_slide = bool((mj.jnt_type == 2).any())
      if has_slide:
        mon.count('rigid_models_with_slide')
      mon.distinct('rigid|' + gen.topo_key(spec),
                   any(not b['free'] for b in spec['bodies']))
      g0 = np.asarray(spec['gravity'])
      for pname in (('generalized',) if job.get('fast_only')
                    else phys.PIPELINES):
        fn = runner(sys_, phys.pipeline(pname), nsteps, with_gravity=True)
        for _ in range(6 if fast else 2):
          rot, tr = gen.rquat(rng), rng.uniform(-3, 3, 3)
          q, qd = gen.rand_state(rng, mj, qscale=1.0,
                                 qdscale=float(rng.choice([40., 80., 150.]))
                                 if fast else 1.0)
          a = rng.uniform(-1, 1, mj.nu)
          q2, qd2 = q.copy(), qd.copy()
          for j in range(mj.njnt):
            if mj.jnt_type[j] == 0:
              qa, da = mj.jnt_qposadr[j], mj.jnt_dofadr[j]
              q2[qa:qa + 3] = qrot(rot, q[qa:qa + 3]) + tr
              q2[qa + 3:qa + 7] = qmul(rot, q[qa + 3:qa + 7])
              qd2[da:da + 3] = qrot(rot, qd[da:da + 3])
          ra = call(fn, q, qd, a, g0)
          rb = call(fn, q2, qd2, a, qrot(rot, g0))
          if diverged(ra) or diverged(rb):
            mon.count('rigid_diverged:' + pname)
            if one_sided_divergence(ra, rb):
              mon.check('rigid_transform:' + pname, False,
                        lambda: dict(model=c, seed=job['seed'],
                                     pipeline=pname, xml=xml, q=q, qd=qd,
                                     reason='only one of the two frames '
                                     'diverges'))
            continue
          qa_, qda_, pa, rota, va, wa = ra[:6]
          qb_, qdb_, pb, rotb, vb, wb = rb[:6]
          e = 0.0
          for i in range(mj.nbody - 1):
            e = max(e, np.abs(qrot(rot, pa[i]) + tr - pb[i]).max())
            e = max(e, phys.quat_err(qmul(rot, rota[i]), rotb[i]))
            e = max(e, np.abs(qrot(rot, va[i]) - vb[i]).max() / (
                1 + np.abs(va).max()))
            e = max(e, np.abs(qrot(rot, wa[i]) - wb[i]).max() / (
                1 + np.abs(wa).max()))
          for j in range(mj.njnt):
            if mj.jnt_type[j] != 0:
              e = max(e, abs(qa_[mj.jnt_qposadr[j]] - qb_[mj.jnt_qposadr[j]]))
              e = max(e, abs(qda_[mj.jnt_dofadr[j]] - qdb_[mj.jnt_dofadr[j]])
                      / (1 + np.abs(qda_).max()))
          mon.err('rigid_transform:' + pname + (':approx_inverse_fast'
                                                if fast else ''), e)
          # fast motion through the warm-started approximate inverse amplifies
          # round-off (1.7e-8 observed on the unchanged tree): 1e-5 there
          # violent (but not yet "diverged") trajectories amplify round-off:
          # the tolerance grows with the speed reached (1e-7 up to |qd| = 10)
          vmax = float(np.abs(qda_).max()) if qda_.size else 0.0
          tol_g = TOL * max(1.0, vmax / 10.0)
          mon.check('rigid_transform:' + pname,
                    e <= (max(1e-5, tol_g) if fast else tol_g),
                    lambda: dict(model=c, seed=job['seed'], pipeline=pname,
                                 nsteps=nsteps, xml=xml, q=q, qd=qd, ctrl=a,
                                 rotation=rot, translation=tr, err=e))
      if c == job['first']:
        mon.sample(dict(workload='rigid', model=c, nsteps=nsteps,
                        rotation=rot, translation=tr,
                        signatures=sorted(gen.stack_sig(b)
                                          for b in spec['bodies'])))
      continue

    if kind == 'order':
      spec = gen.gen_model(rng, n_links=int(rng.integers(3, 7)),
                           strength='gentle' if c % 2 else 'wild')
      prng = np.random.default_rng([job['seed'], c, 7])
      xml_a = gen.to_xml(spec)
      for _ in range(6):  # a permutation that really changes the order
        xml_b = gen.to_xml(spec, order=gen.shuffled_order(prng))
        if xml_b != xml_a:
          break
      sa, sb = phys.load(xml_a), phys.load(xml_b)
      ma, mb = sa.mj_model, sb.mj_model
      changed = ([ma.body(i).name for i in range(1, ma.nbody)]
                 != [mb.body(i).name for i in range(1, mb.nbody)])
      if changed:
        mon.count('order_models_where_link_order_changed')
      mon.distinct('order|' + gen.topo_key(spec), changed)
      ja, jb = joint_slices(ma), joint_slices(mb)
      for pname in phys.PIPELINES:
        p = phys.pipeline(pname)
        fa, fb = runner(sa, p, nsteps), runner(sb, p, nsteps)
        q, qd = gen.state_inside_limits(rng, ma, frac=0.6, qscale=1.0)
        ctrl = rng.uniform(-1, 1, ma.nu)
        qb, qdb, cb = np.zeros(mb.nq), np.zeros(mb.nv), np.zeros(mb.nu)
        for n in ja:
          qb[jb[n][0]] = q[ja[n][0]]
          qdb[jb[n][1]] = qd[ja[n][1]]
        for u in range(ma.nu):
          cb[mb.actuator(ma.actuator(u).name).id] = ctrl[u]
        ra = call(fa, q, qd, ctrl, np.zeros(3))
        rb = call(fb, qb, qdb, cb, np.zeros(3))
        if diverged(ra) or diverged(rb):
          mon.count('order_diverged:' + pname)
          if one_sided_divergence(ra, rb):
            mon.check('sibling_order:' + pname, False,
                      lambda: dict(model=c, seed=job['seed'], pipeline=pname,
                                   xml_a=xml_a, xml_b=xml_b, q=q, qd=qd,
                                   reason='only one sibling order diverges'))
          continue
        if pname == 'generalized' and (ra[6] > 0 or rb[6] > 0):
          # the iterative constraint solver is order dependent at round-off
          tol = 1e-5
          mon.count('order_generalized_constraint_active')
        else:
          tol = TOL
        e = compare_by_name(ma, ra, mb, rb)
        mon.err('sibling_order:' + pname, e)
        mon.check('sibling_order:' + pname, e <= tol,
                  lambda: dict(model=c, seed=job['seed'], pipeline=pname,
                               nsteps=nsteps, xml_a=xml_a, xml_b=xml_b, q=q,
                               qd=qd, ctrl=ctrl, err=e))
      if c == job['first']:
        mon.sample(dict(workload='order', model=c,
                        order_a=[ma.body(i).name for i in range(1, ma.nbody)],
                        order_b=[mb.body(i).name for i in range(1, mb.nbody)]))
      continue

    # components
    stg = 'gentle' if c % 2 else 'wild'
    s1 = gen.gen_model(rng, n_links=int(rng.integers(1, 4)), strength=stg)
    s2 = gen.gen_model(rng, n_links=int(rng.integers(1, 4)), strength=stg)
    s2['timestep'], s2['gravity'] = s1['timestep'], s1['gravity']
    merged = gen.merge_specs(s1, s2)
    # solo version of the second component carries the same (prefixed) names
    solo2 = gen.merge_specs({**s1, 'bodies': [], 'acts': []}, s2)
    xmls = [gen.to_xml(s) for s in (s1, solo2, merged)]
    sa, sb, sm = [phys.load(x) for x in xmls]
    mm = sm.mj_model
    mon.distinct('comp|%s|%s' % (gen.topo_key(s1), gen.topo_key(s2)),
                 sa.mj_model.njnt > 0 and sb.mj_model.njnt > 0)
    jm = joint_slices(mm)
    for pname in phys.PIPELINES:
      p = phys.pipeline(pname)
      fm = runner(sm, p, nsteps)
      qm, qdm, cm = np.zeros(mm.nq), np.zeros(mm.nv), np.zeros(mm.nu)
      solo = []
      for sx in (sa, sb):
        mx = sx.mj_model
        qx, qdx = gen.state_inside_limits(rng, mx, frac=0.6, qscale=1.0)
        cx = rng.uniform(-1, 1, mx.nu)
        jx = joint_slices(mx)
        for n in jx:
          qm[jm[n][0]] = qx[jx[n][0]]
          qdm[jm[n][1]] = qdx[jx[n][1]]
        for u in range(mx.nu):
          cm[mm.actuator(mx.actuator(u).name).id] = cx[u]
        solo.append((sx, qx, qdx, cx))
      rm = call(fm, qm, qdm, cm, np.zeros(3))
      for tag, (sx, qx, qdx, cx) in zip('AB', solo):
        rx = call(runner(sx, p, nsteps), qx, qdx, cx, np.zeros(3))
        if diverged(rx) or diverged(rm):
          mon.count('components_diverged:' + pname)
          # the merged run contains the other component too: compare only
          # this component's coordinates of the merged run
          jx_ = joint_slices(sx.mj_model)
          sub_q = np.concatenate([rm[0][jm[n][0]] for n in jx_]) if jx_ else (
              np.zeros(0))
          sub_qd = np.concatenate([rm[1][jm[n][1]] for n in jx_]) if jx_ else (
              np.zeros(0))
          if one_sided_divergence(rx, (sub_q, sub_qd)):
            mon.check('components:' + pname, False,
                      lambda: dict(model=c, seed=job['seed'], pipeline=pname,
                                   component=tag, xml_merged=xmls[2],
                                   reason='the component diverges in only one '
                                   'of merged / solo'))
          continue
        if pname == 'generalized' and (rm[6] > 0 or rx[6] > 0):
          mon.count('components_generalized_constraint_active')
          continue
        e = compare_by_name(sx.mj_model, rx, mm, rm)
        mon.err('components:' + pname, e)
        mon.check('components:' + pname, e <= 1e-9 * 100,
                  lambda: dict(model=c, seed=job['seed'], pipeline=pname,
                               nsteps=nsteps, component=tag, xml_solo=xmls[
                                   0 if tag == 'A' else 1],
                               xml_merged=xmls[2], q=qx, qd=qdx, ctrl=cx,
                               err=e))
    if c == job['first']:
      mon.sample(dict(workload='components', model=c,
                      component_a=sorted(gen.stack_sig(b)
                                         for b in s1['bodies']),
                      component_b=sorted(gen.stack_sig(b)
                                         for b in s2['bodies'])))
