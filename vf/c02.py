"""C02 — generalized dynamics terms and contact-free step vs MuJoCo."""
import numpy as np

PROP = 'C02'
X64 = True
RULE = ('models: generator forests of 1-6 links (any stack of hinge/slide '
        'joints with arbitrary axes and frames, limits, damping, armature, '
        'stiffness, actuators; exact mass-matrix inverse), plus a slide-heavy '
        'sub-workload; 4 states per model, half of them inside all limits; '
        'ctrl in [-2,2]. One event = one dynamics term (M, bias, passive, '
        'actuation, smooth force, step) compared at one state. distinct = '
        '(topology, signature multiset); non-trivial = the model has a slide '
        'joint on a rotated body or below a moving parent')
ASSUMPTIONS = [
    'MuJoCo 3.13 mj_fullM, qfrc_bias, qfrc_passive, qfrc_actuator, '
    'qfrc_smooth and mj_step (Euler with implicit joint damping) on the same '
    'compiled model are the reference',
    'a step is compared only when no limit/contact row is active before and '
    "after it in both engines (MuJoCo nefc == 0, brax con_jac and "
    'qf_constraint all zero); rejected steps are counted',
]


def config(tier):
  return {'workers': 14, 'job_timeout': 1200, 'wall_cap': 6000}


def plan(tier, seed):
  n = 56 if tier == 'quick' else 1120
  per = 4 if tier == 'quick' else 16
  jobs = []
  for i in range(0, n, per):
    jobs.append({'kind': 'dyn', 'seed': seed, 'first': i, 'count': per})
  # ordered forest shapes with 1..6 links: a seed-rotated quarter in the quick
  # tier, all 196 in the thorough tier
  from vf import gen
  shapes = [p for m in range(1, 7) for p in gen.all_forests(m)]
  if tier == 'quick':
    shapes = [p for i, p in enumerate(shapes) if (i + seed) % 4 == 0]
  shapes.sort(key=len)
  for i in range(0, len(shapes), 4):
    jobs.append({'kind': 'dyn', 'seed': seed, 'first': 300000 + i,
                 'count': len(shapes[i:i + 4]), 'shapes': shapes[i:i + 4]})
  return jobs


def floors(tier):
  k = 1 if tier == 'quick' else 18
  return {'ev:mass_matrix': 180 * k, 'ev:bias_force': 180 * k,
          'ev:passive_force': 180 * k, 'ev:actuator_force': 180 * k,
          'ev:smooth_force': 180 * k, 'ev:step_equals_reference': 60 * k,
          'states_with_slide_on_rotated_body': 60 * k,
          'steps_with_slide_on_rotated_body': 20 * k,
          'models_mixed_stack': 8 * k, 'deep_chain_models': 4 * k,
          'forest_shapes_enumerated': 45 if tier == 'quick' else 196}


def run(job, mon):
  import jax
  from jax import numpy as jp
  import mujoco
  from brax import actuator
  from brax.generalized import dynamics
  from brax.generalized import pipeline as gp
  from vf import gen, phys

  for c in range(job['first'], job['first'] + job['count']):
    rng = np.random.default_rng([job['seed'], c, 2])
    if 'shapes' in job:
      # all bodies get a single non-free joint: different tree shapes with
      # the same number of links then share the same link-type string, and are
      # evaluated one after the other in the same process (anything cached on
      # the type string alone shows up)
      spec = gen.gen_model(rng, parents=job['shapes'][c - job['first']],
                           single_origin=bool(c % 2), max_stack=1,
                           free_root=False, limit_prob=0.2)
      mon.count('forest_shapes_enumerated')
    elif c % 4 == 3:
      spec = gen.gen_model(rng, stack_kinds=str(rng.choice(['slide', 'any'])),
                           limit_prob=0.15)
    elif c % 4 == 2:
      spec = gen.gen_model(rng, limits=False, chain=bool(c % 8 == 2),
                           n_links=int(rng.integers(5, 7)) if c % 8 == 2
                           else None)
      if c % 8 == 2:
        mon.count('deep_chain_models')
    else:
      spec = gen.gen_model(rng)
    xml = gen.to_xml(spec)
    sys_ = phys.load(xml)
    mj = sys_.mj_model
    info = gen.classify(spec)
    slide_rot = any(
        any(j['type'] == 'slide' for j in b['joints'])
        and (info[i]['rotated'] or b['parent'] != -1)
        for i, b in enumerate(spec['bodies']))
    mixed = any(len({j['type'] for j in b['joints']}) == 2
                for b in spec['bodies'])
    if mixed:
      mon.count('models_mixed_stack')
    mon.distinct(gen.topo_key(spec), slide_rot)

    def f(q, qd, ctrl):
      st = gp.init(sys_, q, qd)
      bias = dynamics.inverse(sys_, st)
      passive = dynamics._passive(sys_, st)  # pylint: disable=protected-access
      tau = actuator.to_tau(sys_, ctrl, q, qd)
      st2 = gp.step(sys_, st, ctrl)
      act0 = jp.abs(st.con_jac).sum()
      act1 = jp.abs(st2.con_jac).sum() + jp.abs(st2.qf_constraint).sum()
      return (st.mass_mx, bias, passive, tau, st2.qf_smooth, st2.q, st2.qd,
              act0, act1)

    fj = jax.jit(f)
    for s in range(5):
      if s == 4:
        # special points: default pose at rest / tiny motion, zero control
        q, qd = gen.special_state(mj, 'zero' if c % 2 else 'tiny', rng)
      elif s % 2 == 0:
        q, qd = gen.rand_state(rng, mj)
      else:
        q, qd = gen.state_inside_limits(rng, mj, frac=0.7, qscale=2.0)
      ctrl = rng.uniform(-2, 2, mj.nu) if s < 4 else np.zeros(mj.nu)
      out = [np.asarray(o) for o in fj(jp.array(q), jp.array(qd),
                                       jp.array(ctrl))]
      m, bias, passive, tau, smooth, q2, qd2, act0, act1 = out
      d = phys.mj_forward_ref(mj, q, qd, ctrl)
      mref = phys.full_m(mj, d)
      nefc0 = d.nefc
      wit = lambda **kw: dict(model=c, seed=job['seed'], xml=xml, q=q, qd=qd,
                              ctrl=ctrl, **kw)
      if slide_rot:
        mon.count('states_with_slide_on_rotated_body')
      if c == job['first'] and s == 0:
        mon.sample(dict(model=c, signatures=[info[i]['sig'] for i in
                                             gen.dfs_order(spec)],
                        q=q, qd=qd, ctrl=ctrl, mass_mx_diag=np.diag(m)))

      def rel(a, b):
        return float(np.abs(a - b).max() / (1 + np.abs(b).max())) if (
            a.size) else 0.0
      e = rel(m, mref)
      mon.err('mass_matrix', e)
      spd = bool((m == m.T).all() and np.linalg.eigvalsh(m).min() > 0)
      mon.check('mass_matrix', e <= 1e-9 and spd,
                lambda: wit(mass_mx=m, ref=mref, symmetric_pd=spd))
      for name, got, ref in (('bias_force', bias, d.qfrc_bias),
                             ('passive_force', passive, d.qfrc_passive),
                             ('actuator_force', tau, d.qfrc_actuator),
                             ('smooth_force', smooth, d.qfrc_smooth)):
        e = rel(got, ref)
        mon.err(name, e)
        mon.check(name, e <= 1e-8, lambda: wit(term=name, got=got, ref=ref))
      # the step, when nothing switches
      mujoco.mj_step(mj, d)
      qref, qdref = d.qpos.copy(), d.qvel.copy()
      d2 = phys.mj_forward_ref(mj, qref, qdref, ctrl)
      if nefc0 or d2.nefc or act0 > 0 or act1 > 0:
        mon.count('steps_rejected_constraint_active')
        continue
      # a stiff generated model can blow up within one step; MuJoCo then
      # raises a BADQACC/BADQPOS/BADQVEL warning and resets its data to qpos0
      # (the "reference" would then be a different trajectory altogether)
      mj_unstable = any(d.warning[k].number > 0 for k in (
          mujoco.mjtWarning.mjWARN_BADQPOS, mujoco.mjtWarning.mjWARN_BADQVEL,
          mujoco.mjtWarning.mjWARN_BADQACC))
      if mj_unstable or not phys.finite(q2, qd2) or (
          np.abs(qd2).max() > 1e4 or np.abs(qdref).max() > 1e4):
        mon.count('steps_rejected_diverged')
        continue
      # root quaternions up to sign
      eq = 0.0
      for j in range(mj.njnt):
        a = mj.jnt_qposadr[j]
        if mj.jnt_type[j] == 0:
          eq = max(eq, np.abs(q2[a:a + 3] - qref[a:a + 3]).max(),
                   phys.quat_err(q2[a + 3:a + 7], qref[a + 3:a + 7]))
        else:
          eq = max(eq, abs(q2[a] - qref[a]))
      ev = float(np.abs(qd2 - qdref).max() / (1 + np.abs(qdref).max()))
      mon.err('step_q', eq)
      mon.err('step_qd', ev)
      if slide_rot:
        mon.count('steps_with_slide_on_rotated_body')
      mon.check('step_equals_reference', eq <= 1e-8 and ev <= 1e-7,
                lambda: wit(q_next=q2, q_ref=qref, qd_next=qd2,
                            qd_ref=qdref))
