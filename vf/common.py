"""Shared plumbing for the monitors: environment set-up, the Mon recorder.

Nothing in here re-implements brax. Workers import brax from /repo's working
tree (the editable install), or from $VF_REPO when a scratch copy is tested.
"""
import collections
import json
import os
import sys
import types

VERIF = os.path.dirname(os.path.dirname(os.path.abspath(__file__)))


def setup_env():
  """Environment for a worker process; must run before jax is imported."""
  os.environ.setdefault(
      'XLA_FLAGS',
      '--xla_cpu_multi_thread_eigen=false intra_op_parallelism_threads=1')
  os.environ.setdefault('JAX_PLATFORMS', 'cpu')
  os.environ.setdefault('TF_CPP_MIN_LOG_LEVEL', '3')
  os.environ.setdefault('OMP_NUM_THREADS', '1')
  os.environ.setdefault('OPENBLAS_NUM_THREADS', '1')
  os.environ.setdefault('MKL_NUM_THREADS', '1')
  repo = os.environ.get('VF_REPO')
  if repo:
    sys.path.insert(0, repo)
  deps = os.path.join(VERIF, '.deps')
  if os.path.isdir(deps) and deps not in sys.path:
    sys.path.append(deps)


def setup_jax(x64=True):
  import jax
  jax.config.update('jax_enable_x64', bool(x64))
  return jax


def stub_v1():
  """brax.training.acting imports brax.v1 only for three annotation names.

  brax.v1 does not import on the pinned jax; the stub lets the real acting
  module (the code under test) load.
  """
  if 'brax.v1' in sys.modules:
    return
  v1 = types.ModuleType('brax.v1')
  v1e = types.ModuleType('brax.v1.envs')

  class _S:  # pylint: disable=missing-class-docstring
    pass

  v1e.State = _S
  v1e.Env = _S
  v1e.Wrapper = _S
  v1.envs = v1e
  sys.modules['brax.v1'] = v1
  sys.modules['brax.v1.envs'] = v1e


def brax_origin():
  import brax
  return os.path.dirname(os.path.dirname(os.path.abspath(brax.__file__)))


def jsonable(o):
  """Convert numpy / jax containers to plain JSON types."""
  import numpy as np
  if isinstance(o, dict):
    return {str(k): jsonable(v) for k, v in o.items()}
  if isinstance(o, (list, tuple)):
    return [jsonable(v) for v in o]
  if isinstance(o, (np.floating,)):
    return float(o)
  if isinstance(o, (np.integer,)):
    return int(o)
  if isinstance(o, (np.bool_,)):
    return bool(o)
  if isinstance(o, np.ndarray):
    return jsonable(o.tolist())
  if hasattr(o, '__array__') and not isinstance(o, (str, bytes)):
    return jsonable(np.asarray(o).tolist())
  if isinstance(o, float):
    if o != o:
      return 'nan'
    if o in (float('inf'), float('-inf')):
      return 'inf' if o > 0 else '-inf'
    return o
  return o


_KNOWN = None


def known_findings():
  global _KNOWN
  if _KNOWN is None:
    with open(os.path.join(VERIF, 'known_findings.json')) as f:
      _KNOWN = json.load(f)
  return _KNOWN


def known_key_listed(prop, key):
  for e in known_findings().get('known', []):
    if e['property'] == prop and e['key'] == key:
      return e
  return None


class Mon:
  """Per-job recorder for monitors: counters, max errors, verdict events.

  A monitor calls
    check(name, ok, witness)      one oracle evaluation (event) of monitor name
    err(name, value)              track the largest residual seen
    count(name)                   any other counter (guards, branches)
    known(key, witness)           a failure whose mechanism key is listed in
                                  known_findings.json; otherwise a violation
    distinct(key, nontrivial)     case identity for the evidence file
    sample(obj)                   an actual case written into the evidence
  """

  MAX_VIOL = 5
  MAX_SAMPLES = 2

  def __init__(self, prop):
    self.prop = prop
    self.counters = collections.Counter()
    self.maxerr = {}
    self.violations = []
    self.known_hits = collections.Counter()
    self.known_samples = {}
    self.distinct_keys = {}
    self.samples = []
    self.inconclusive = []

  def count(self, name, n=1):
    self.counters[name] += int(n)

  def err(self, name, value):
    value = float(value)
    if value != value:
      value = float('inf')
    if value > self.maxerr.get(name, -1.0):
      self.maxerr[name] = value

  def violation(self, monitor, witness):
    self.counters['violations:' + monitor] += 1
    if len(self.violations) < self.MAX_VIOL:
      self.violations.append({'monitor': monitor, 'witness': jsonable(witness)})

  def check(self, name, ok, witness=None):
    """One oracle evaluation. witness may be a dict or a zero-arg callable."""
    self.counters['ev:' + name] += 1
    if bool(ok):
      return True
    w = witness() if callable(witness) else (witness or {})
    self.violation(name, w)
    return False

  def known(self, key, witness=None, monitor=None):
    """Failure with a mechanism key: known finding if listed, else violation."""
    if known_key_listed(self.prop, key):
      self.known_hits[key] += 1
      if key not in self.known_samples:
        w = witness() if callable(witness) else (witness or {})
        self.known_samples[key] = jsonable(w)
      return True
    w = witness() if callable(witness) else (witness or {})
    w = dict(w)
    w['mechanism_key'] = key
    self.violation(monitor or key, w)
    return False

  def distinct(self, key, nontrivial=True):
    key = str(key)
    self.distinct_keys[key] = bool(nontrivial) or self.distinct_keys.get(
        key, False)

  def sample(self, obj):
    if len(self.samples) < self.MAX_SAMPLES:
      self.samples.append(jsonable(obj))

  def note_inconclusive(self, reason):
    self.inconclusive.append(str(reason))

  def dump(self):
    return {
        'counters': dict(self.counters),
        'maxerr': self.maxerr,
        'violations': self.violations,
        'known_hits': dict(self.known_hits),
        'known_samples': self.known_samples,
        'distinct': self.distinct_keys,
        'samples': self.samples,
        'inconclusive': self.inconclusive,
    }
