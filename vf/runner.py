"""Runner: plans jobs, drives worker processes, aggregates monitor output.

  python -m vf.runner C01 --tier quick
  python -m vf.runner C01 --replay replays/C01/0.json

Exit 0: every monitor met its event floor, no unlisted violation.
Exit 1: `VIOLATION property=<id> replay=<path>` printed for each.
Exit 2: INCONCLUSIVE (a floor was missed: worker death, watchdog, guards).
"""
import argparse
import collections
import importlib
import json
import os
import queue
import shutil
import subprocess
import sys
import tempfile
import threading
import time

from vf import common

VERIF = common.VERIF


def _merge(agg, res):
  for k, v in res['counters'].items():
    agg['counters'][k] += v
  for k, v in res['maxerr'].items():
    if isinstance(v, str):  # 'inf' / 'nan' as serialised by jsonable
      v = float('inf')
    if v > agg['maxerr'].get(k, -1.0):
      agg['maxerr'][k] = v
  for k, v in res['known_hits'].items():
    agg['known_hits'][k] += v
  for k, v in res['known_samples'].items():
    agg['known_samples'].setdefault(k, v)
  for k, v in res['distinct'].items():
    agg['distinct'][k] = v or agg['distinct'].get(k, False)
  agg['inconclusive'].extend(res['inconclusive'])


class Worker:
  """One subprocess speaking JSON lines; restarted when it dies."""

  def __init__(self, prop, idx, cwd, logdir):
    self.prop, self.idx, self.cwd, self.logdir = prop, idx, cwd, logdir
    self.proc = None

  def start(self):
    env = dict(os.environ)
    env['PYTHONPATH'] = VERIF + os.pathsep + env.get('PYTHONPATH', '')
    env['PYTHONHASHSEED'] = '0'
    log = open(os.path.join(self.logdir, 'worker%d.log' % self.idx), 'ab')
    self.proc = subprocess.Popen(
        [sys.executable, '-u', '-m', 'vf.worker', self.prop],
        stdin=subprocess.PIPE, stdout=subprocess.PIPE, stderr=log,
        cwd=self.cwd, env=env, text=True, bufsize=1)
    log.close()

  def stop(self):
    if self.proc and self.proc.poll() is None:
      try:
        self.proc.kill()
      except OSError:
        pass
      self.proc.wait()
    self.proc = None

  def run(self, job, timeout):
    """Returns (status, result) with status in ok / timeout / died."""
    if self.proc is None or self.proc.poll() is not None:
      self.start()
    fired = []

    def _kill():
      fired.append(1)
      try:
        self.proc.kill()
      except OSError:
        pass

    timer = threading.Timer(timeout, _kill)
    timer.start()
    try:
      self.proc.stdin.write(json.dumps(job) + '\n')
      self.proc.stdin.flush()
      while True:
        line = self.proc.stdout.readline()
        if not line:
          self.stop()
          return ('timeout' if fired else 'died'), None
        if line.startswith('@@RESULT '):
          return 'ok', json.loads(line[len('@@RESULT '):])
    except (BrokenPipeError, OSError):
      self.stop()
      return ('timeout' if fired else 'died'), None
    finally:
      timer.cancel()


def run_jobs(prop, mod, jobs, tier, nworkers, wall_cap, job_timeout):
  scratch = tempfile.mkdtemp(prefix='vf_%s_' % prop)
  logdir = os.path.join(scratch, 'logs')
  os.makedirs(logdir)
  q = queue.Queue()
  for i, j in enumerate(jobs):
    j = dict(j)
    j['_idx'] = i
    q.put(j)
  results = []
  failed = []
  lock = threading.Lock()
  t0 = time.time()
  stop_flag = []

  def loop(idx):
    cwd = os.path.join(scratch, 'w%d' % idx)
    os.makedirs(cwd, exist_ok=True)
    w = Worker(prop, idx, cwd, logdir)
    while True:
      if time.time() - t0 > wall_cap:
        stop_flag.append(1)
        break
      try:
        job = q.get_nowait()
      except queue.Empty:
        break
      status, res = w.run(job, job_timeout)
      with lock:
        if status == 'ok':
          results.append((job, res))
        else:
          failed.append((job, status))
    w.stop()

  threads = [threading.Thread(target=loop, args=(i,)) for i in range(nworkers)]
  for t in threads:
    t.start()
  for t in threads:
    t.join()
  not_run = q.qsize()
  # keep worker logs of failed jobs for diagnosis
  tails = {}
  if failed:
    for name in sorted(os.listdir(logdir)):
      with open(os.path.join(logdir, name), 'rb') as f:
        data = f.read()[-3000:]
      tails[name] = data.decode('utf8', 'replace')
  shutil.rmtree(scratch, ignore_errors=True)
  return results, failed, not_run, tails, bool(stop_flag)


def main(argv=None):
  ap = argparse.ArgumentParser()
  ap.add_argument('prop')
  ap.add_argument('--tier', default=os.environ.get('VERIF_TIER', 'quick'),
                  choices=['quick', 'thorough'])
  ap.add_argument('--replay')
  ap.add_argument('--workers', type=int,
                  default=int(os.environ.get('VF_WORKERS', '14')))
  ap.add_argument('--no-evidence', action='store_true')
  args = ap.parse_args(argv)
  prop = args.prop.upper()
  seed = int(os.environ.get('VERIF_SEED', '0') or 0)
  os.environ['PYTHONHASHSEED'] = '0'
  mod = importlib.import_module('vf.' + prop.lower())
  t0 = time.time()

  if args.replay:
    return replay(prop, mod, args.replay)

  jobs = mod.plan(args.tier, seed)
  cfg = mod.config(args.tier) if hasattr(mod, 'config') else {}
  nworkers = min(args.workers, cfg.get('workers', 14), max(1, len(jobs)))
  results, failed, not_run, tails, capped = run_jobs(
      prop, mod, jobs, args.tier, nworkers,
      cfg.get('wall_cap', 900 if args.tier == 'quick' else 7200),
      cfg.get('job_timeout', 300 if args.tier == 'quick' else 900))

  agg = {'counters': collections.Counter(), 'maxerr': {},
         'known_hits': collections.Counter(), 'known_samples': {},
         'distinct': {}, 'inconclusive': []}
  samples = []
  violations = []
  origin = None
  for job, res in sorted(results, key=lambda jr: jr[0]['_idx']):
    _merge(agg, res)
    origin = origin or res.get('brax_origin')
    for s in res['samples']:
      if len(samples) < 4:
        samples.append(s)
    for v in res['violations']:
      violations.append((job, v))
  if hasattr(mod, 'finalize'):
    mod.finalize(agg, args.tier, violations)

  # floors
  floors = mod.floors(args.tier) if hasattr(mod, 'floors') else {}
  missed = {k: (agg['counters'].get(k, 0), v) for k, v in floors.items()
            if agg['counters'].get(k, 0) < v}

  # replay files
  rdir = os.path.join(VERIF, 'replays', prop)
  if os.path.isdir(rdir):
    shutil.rmtree(rdir)
  replay_paths = []
  for n, (job, v) in enumerate(violations[:20]):
    os.makedirs(rdir, exist_ok=True)
    path = os.path.join(rdir, '%d.json' % n)
    with open(path, 'w') as f:
      json.dump({'property': prop, 'tier': args.tier, 'seed': seed,
                 'job': job, 'monitor': v['monitor'],
                 'witness': v['witness']}, f, indent=1)
    replay_paths.append(path)

  nviol = sum(v for k, v in agg['counters'].items()
              if k.startswith('violations:'))
  evaluations = sum(v for k, v in agg['counters'].items()
                    if k.startswith('ev:'))
  distinct_nt = sum(1 for v in agg['distinct'].values() if v)
  wall = time.time() - t0
  cov = {
      'evaluations': int(evaluations),
      'distinct_nontrivial': int(distinct_nt),
      'distinct_total': len(agg['distinct']),
      'rule': getattr(mod, 'RULE', ''),
      'samples': samples or [{'note': 'no sample recorded'}],
      'monitor_events': {k[3:]: v for k, v in sorted(agg['counters'].items())
                         if k.startswith('ev:')},
      'other_counters': {k: v for k, v in sorted(agg['counters'].items())
                         if not k.startswith('ev:')},
      'max_err_seen': agg['maxerr'],
      'floors': floors,
      'floors_missed': {k: list(v) for k, v in missed.items()},
      'jobs_planned': len(jobs),
      'jobs_completed': len(results),
      'jobs_failed': [{'job': j.get('kind'), 'idx': j['_idx'], 'status': s}
                      for j, s in failed][:20],
      'jobs_not_run': not_run,
      'known_findings_observed': dict(agg['known_hits']),
      'known_finding_samples': agg['known_samples'],
      'brax_imported_from': origin,
      'slowest_jobs': sorted(
          [{'kind': j.get('kind'), 'idx': j['_idx'],
            'wall_s': r.get('wall_s')} for j, r in results],
          key=lambda d: -(d['wall_s'] or 0))[:5],
  }
  if getattr(mod, 'EXHAUSTIVE', False) and not failed and not not_run:
    cov['exhaustive'] = True
    cov['exhaustive_scope'] = getattr(mod, 'EXHAUSTIVE_SCOPE', '')
  ev = {
      'property_id': prop, 'tier': args.tier, 'seed': seed,
      'level': 'exploration', 'coverage': cov,
      'assumptions': list(getattr(mod, 'ASSUMPTIONS', [])),
      'wall_s': round(wall, 2), 'violations': int(nviol),
  }
  if not args.no_evidence:
    os.makedirs(os.path.join(VERIF, 'evidence'), exist_ok=True)
    with open(os.path.join(VERIF, 'evidence', prop + '.json'), 'w') as f:
      json.dump(common.jsonable(ev), f, indent=1, sort_keys=True)

  print('%s tier=%s seed=%d jobs=%d/%d events=%d distinct_nontrivial=%d '
        'wall=%.0fs' % (prop, args.tier, seed, len(results), len(jobs),
                        evaluations, distinct_nt, wall))
  for k, v in sorted(cov['monitor_events'].items()):
    print('  monitor %-40s events=%d' % (k, v))
  for k, v in sorted(agg['maxerr'].items()):
    print('  max_err %-40s %.3g' % (k, v))
  for key, n in sorted(agg['known_hits'].items()):
    e = common.known_key_listed(prop, key)
    print('KNOWN-FINDING: property=%s %s [%s] (observed %d times)' %
          (prop, e['what'], key, n))
  if nviol:
    for p, (job, v) in zip(replay_paths, violations):
      print('VIOLATION property=%s replay=%s monitor=%s' %
            (prop, p, v['monitor']))
    return 1
  if missed or failed or agg['inconclusive']:
    if missed or agg['counters'].get('job_exceptions', 0):
      for note in agg['inconclusive'][:3]:
        print('  note:', note[-800:])
      print('INCONCLUSIVE property=%s floors missed: %s' % (prop, missed))
      for j, s in failed[:5]:
        print('  failed job', j.get('kind'), j['_idx'], s)
      for name, t in list(tails.items())[:3]:
        print('---', name, '\n', t[-1500:])
      return 2
    # floors met although some jobs failed: held on what was observed
    for j, s in failed[:5]:
      print('  note: job %s #%d %s (floors still met)' %
            (j.get('kind'), j['_idx'], s))
  print('HELD property=%s on %d monitor events' % (prop, evaluations))
  return 0


def replay(prop, mod, path):
  with open(path) as f:
    rec = json.load(f)
  extra = getattr(mod, 'EXTRA_XLA_FLAGS', '')
  if extra:
    os.environ['XLA_FLAGS'] = (
        extra + ' --xla_cpu_multi_thread_eigen=false '
        'intra_op_parallelism_threads=1')
  common.setup_env()
  common.setup_jax(getattr(mod, 'X64', True))
  mon = common.Mon(prop)
  mod.run(rec['job'], mon)
  d = mon.dump()
  print(json.dumps({'counters': d['counters'], 'maxerr': d['maxerr'],
                    'known': d['known_hits']}, indent=1))
  if d['violations']:
    for v in d['violations']:
      print('VIOLATION property=%s replay=%s monitor=%s' %
            (prop, path, v['monitor']))
      print(json.dumps(v['witness'])[:2000])
    return 1
  print('replay: no violation')
  return 0


if __name__ == '__main__':
  try:
    rc = main()
  except SystemExit:
    raise
  except BaseException:  # pylint: disable=broad-except
    # a crash of the harness itself is never a verdict on the property
    import traceback
    traceback.print_exc()
    print('INCONCLUSIVE harness error (see traceback)')
    rc = 2
  sys.exit(rc)
