"""C16 — bundled environments honour the Env contract and stay finite.

Trajectory invariants on every step of wrapped rollouts, in float32 as
shipped: declared sizes, done(reset)=0, determinism, finiteness, unit
quaternions.
"""
import numpy as np

PROP = 'C16'
X64 = False
ENVS = ['ant', 'halfcheetah', 'hopper', 'humanoid', 'humanoidstandup',
        'inverted_pendulum', 'inverted_double_pendulum', 'pusher', 'reacher',
        'swimmer', 'walker2d']
BACKENDS = ['generalized', 'spring', 'positional']
RULE = ('all 11 registered physics environments x {generalized, spring, '
        'positional} (construction ValueError = backend unsupported, '
        'recorded); quick tier: all combinations of the 7 cheap environments '
        'and a seed-rotated third of ant/humanoid/humanoidstandup/pusher, '
        '200 steps x batch 8; thorough: all, 1000 steps x batch 32; uniform '
        'and bang-bang action sequences through training.wrap. One event = '
        'one step of one rollout checked (finite, unit quaternions), or one '
        'contract check (sizes, done at reset, determinism, re-step). '
        'distinct = (env, backend, action mode); non-trivial = the rollout '
        'contained at least one episode end or |qd| > 1')
ASSUMPTIONS = [
    'float32 as shipped; unit quaternions to 2e-6 (observed <= 2e-7 on the '
    'unchanged tree over all environments; the property gives no number)',
    'determinism: the same compiled function called twice with the same key '
    'and actions must return bitwise equal outputs; re-stepping from a saved '
    'state must reproduce the recorded successor bitwise',
]


def config(tier):
  return {'workers': 14,
          'job_timeout': 1500 if tier == 'quick' else 5000, 'wall_cap': 14000}


def combos():
  return [(e, b) for e in ENVS for b in BACKENDS]


def plan(tier, seed):
  cs = combos()
  if tier == 'quick':
    # every combination of the environments that compile quickly, and a
    # seed-rotated third of the expensive ones
    expensive = ('ant', 'humanoid', 'humanoidstandup', 'pusher')
    cs = [c for i, c in enumerate(cs)
          if c[0] not in expensive or (i + i // 3 + seed) % 3 == 0]
    steps, batch = 200, 8
  else:
    steps, batch = 1000, 32
  jobs = [{'kind': 'env', 'env': e, 'backend': b, 'steps': steps,
           'batch': batch, 'seed': seed} for e, b in cs]
  cost = {'humanoid': 0, 'humanoidstandup': 0, 'pusher': 1, 'ant': 2,
          'halfcheetah': 2}
  jobs.sort(key=lambda j: cost.get(j['env'], 5))
  return jobs


def floors(tier):
  q = tier == 'quick'
  return {'ev:step_finite_and_unit': (200 * 3 * 8 * 20) if q else (
      1000 * 3 * 28),
          'ev:reset_state_finite_and_unit': 20 if q else 28,
          'ev:sizes_match_declared': 20 if q else 28,
          'ev:reset_done_zero': 20 if q else 28,
          'ev:deterministic': 40 if q else 56,
          'ev:restep_reproduces': 20 if q else 28,
          'combinations_supported': 20 if q else 28}


def run(job, mon):
  import jax
  from jax import numpy as jp
  from vf import common
  common.stub_v1()
  from brax import envs
  from brax.envs.wrappers import training
  name, backend = job['env'], job['backend']
  nsteps, nb = job['steps'], job['batch']
  wit = lambda **kw: dict(env=name, backend=backend, seed=job['seed'], **kw)
  try:
    env = envs.get_environment(name, backend=backend)
  except ValueError as e:
    mon.count('combinations_unsupported')
    mon.count('unsupported:%s:%s' % (name, backend))
    if (name, backend) not in (('swimmer', 'spring'),
                               ('swimmer', 'positional')):
      # every other combination is supported on the unchanged tree
      mon.check('supported_combination_constructs', False,
                wit(error=repr(e)))
    return
  mon.count('combinations_supported')
  w = training.wrap(env, episode_length=1000)
  rng = np.random.default_rng([job['seed'], ENVS.index(name),
                               BACKENDS.index(backend), 16])
  key = jax.random.PRNGKey(int(rng.integers(1 << 30)))
  keys = jax.random.split(key, nb)
  reset = jax.jit(w.reset)
  step = jax.jit(w.step)

  def rollout(keys, actions):
    s = w.reset(keys)

    def f(s, a):
      s = w.step(s, a)
      ps = s.pipeline_state
      fin = (jp.isfinite(s.obs).all() & jp.isfinite(s.reward).all()
             & jp.isfinite(s.done).all() & jp.isfinite(ps.q).all()
             & jp.isfinite(ps.qd).all())
      nrm = jp.abs(jp.linalg.norm(ps.x.rot, axis=-1) - 1).max()
      return s, (fin, nrm, s.done.sum(), jp.abs(ps.qd).max(), s.obs, s.reward,
                 s.done)
    s, out = jax.lax.scan(f, s, actions)
    return s.obs, s.pipeline_state.q, out
  roll = jax.jit(rollout)

  # an exception out of reset/step is itself a contract violation
  try:
    s0 = reset(keys)
    a0 = jp.array(rng.uniform(-1, 1, (nb, env.action_size)), dtype=jp.float32)
    s1 = step(s0, a0)
  except Exception as e:  # pylint: disable=broad-except
    mon.check('reset_and_step_accept_declared_shapes', False,
              wit(error=repr(e)[:500]))
    return
  mon.check('reset_and_step_accept_declared_shapes', True)
  obs_size = env.observation_size
  mon.check('sizes_match_declared',
            tuple(s0.obs.shape) == (nb, obs_size)
            and isinstance(env.action_size, int),
            lambda: wit(obs_shape=tuple(s0.obs.shape), declared=obs_size,
                        action_size=env.action_size))
  mon.check('reset_done_zero',
            float(jp.abs(s0.done).max()) == 0.0
            and bool(jp.isfinite(s0.obs).all()),
            lambda: wit(done=np.asarray(s0.done)))
  # the reset state itself (also what auto-reset hands back later)
  rn = float(jp.abs(jp.linalg.norm(s0.pipeline_state.x.rot, axis=-1)
                    - 1).max())
  mon.err('unit_quaternion_at_reset:%s' % backend, rn)
  mon.check('reset_state_finite_and_unit',
            rn <= 2e-6 and bool(jp.isfinite(s0.pipeline_state.q).all())
            and bool(jp.isfinite(s0.pipeline_state.qd).all()),
            lambda: wit(quat_norm_err=rn))
  # reset is a pure function of the key
  s0b = reset(keys)
  mon.check('deterministic',
            all(np.array_equal(np.asarray(a), np.asarray(b), equal_nan=True)
                for a, b in zip(jax.tree_util.tree_leaves(s0),
                                jax.tree_util.tree_leaves(s0b))),
            lambda: wit(what='reset twice with the same keys'))
  # re-stepping from a saved state reproduces the recorded successor
  s1b = step(s0, a0)
  mon.check('restep_reproduces',
            all(np.array_equal(np.asarray(a), np.asarray(b), equal_nan=True)
                for a, b in zip(jax.tree_util.tree_leaves(s1),
                                jax.tree_util.tree_leaves(s1b)))
            and tuple(s1.obs.shape) == (nb, obs_size),
            lambda: wit(what='step twice from the same saved state'))

  for mode in ('uniform', 'bang', 'held'):
    if mode == 'uniform':
      acts = rng.uniform(-1, 1, (nsteps, nb, env.action_size))
    elif mode == 'bang':
      acts = rng.choice([-1.0, 1.0], (nsteps, nb, env.action_size))
    else:
      # bang-bang held for long stretches (member 0: for the whole rollout):
      # the sequences that spin joints up the most
      acts = np.zeros((nsteps, nb, env.action_size))
      for b in range(nb):
        t = 0
        while t < nsteps:
          hold = nsteps if b == 0 else int(rng.integers(10, 200))
          acts[t:t + hold, b] = rng.choice([-1.0, 1.0], env.action_size)
          t += hold
    acts = jp.array(acts, dtype=jp.float32)
    fobs, fq, (fin, nrm, dones, qdmax, obs, rew, done) = roll(keys, acts)
    fin, nrm = np.asarray(fin), np.asarray(nrm)
    bad = np.nonzero(~fin | ~(nrm <= 2e-6))[0]
    mon.count('ev:step_finite_and_unit', nsteps * nb - 1)
    mon.err('unit_quaternion:%s' % backend, float(np.nanmax(nrm)))
    mon.check('step_finite_and_unit', len(bad) == 0,
              lambda: wit(mode=mode, first_bad_step=int(bad[0]),
                          finite=bool(fin[bad[0]]),
                          quat_norm_err=float(nrm[bad[0]]),
                          max_abs_qd=float(np.asarray(qdmax)[bad[0]])))
    # same key, same actions -> bitwise the same rollout
    fobs2, fq2, out2 = roll(keys, acts)
    same = (np.array_equal(np.asarray(fobs), np.asarray(fobs2), equal_nan=True)
            and np.array_equal(np.asarray(fq), np.asarray(fq2), equal_nan=True)
            and np.array_equal(np.asarray(obs), np.asarray(out2[4]),
                               equal_nan=True)
            and np.array_equal(np.asarray(rew), np.asarray(out2[5]),
                               equal_nan=True))
    mon.check('deterministic', same,
              lambda: wit(mode=mode, what='rollout twice'))
    ends = int(np.asarray(dones).sum())
    mon.distinct('%s|%s|%s' % (name, backend, mode),
                 ends > 0 or float(np.asarray(qdmax).max()) > 1)
    mon.count('episode_ends', ends)
    if mode == 'uniform':
      mon.sample(dict(env=name, backend=backend, mode=mode, steps=nsteps,
                      batch=nb, observation_size=obs_size,
                      action_size=env.action_size, episode_ends=ends,
                      max_abs_qd=float(np.asarray(qdmax).max()),
                      max_quat_norm_err=float(nrm.max())))
