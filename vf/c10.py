"""C10 — contact.get vs closed-form geometry of sphere/capsule/plane pairs.

Reference model: numpy closed forms computed from the scene spec and the link
poses only (independent of brax and mjx). Rows are matched by the reported
geom ids, never by position in the contact array.
"""
import numpy as np

PROP = 'C10'
X64 = True
RULE = ('scenes: a (possibly tilted) plane + 2-3 free bodies with 1-2 sphere / '
        'capsule geoms each (random radius, half-length, local pose, per-geom '
        'elasticity incl. exactly 0 and 1, optional global default); 5 random link poses per scene (+2 with geoms re-attached through sys.replace) with distances in '
        '[-0.3, 0.7]. One event = one contact row (dist, normal, link_idx, '
        'elasticity) or one pair-set comparison. distinct = (scene, pose); '
        'non-trivial = the pose has both penetrating and separated rows')
ASSUMPTIONS = [
    'closed forms: plane-sphere n.(c-p0)-r; plane-capsule per end point; '
    'sphere-sphere; point-segment; segment-segment (Ericson) minus radii',
    'mjx regularises capsule normals (tilt <= ~1.4e-3 rad observed), so the '
    'normal of non-plane pairs is required to point from geom1 to geom2 '
    '(1 - cos <= 2e-5, i.e. within 6e-3 rad), not to be bit-equal',
]
TOL = 1e-8


def config(tier):
  return {'workers': 14, 'job_timeout': 900, 'wall_cap': 4000}


def plan(tier, seed):
  n = 70 if tier == 'quick' else 2016
  per = 5 if tier == 'quick' else 36
  return [{'kind': 'scene', 'seed': seed, 'first': i, 'count': per}
          for i in range(0, n, per)]


def floors(tier):
  k = 1 if tier == 'quick' else 20
  f = {'ev:pair_set': 300 * k, 'ev:link_attribution': 2000 * k,
       'ev:elasticity_mean': 2000 * k, 'ev:normal_unit': 2000 * k,
       'rows_penetrating': 60 * k, 'rows_separated': 300 * k,
       'scenes_tilted_plane': 10 * k, 'scenes_with_reattached_geoms': 50 * k}
  for kind in ('plane-sphere', 'plane-capsule', 'sphere-sphere',
               'sphere-capsule', 'capsule-capsule'):
    f['ev:dist:' + kind] = 60 * k
    f['ev:normal:' + kind] = 60 * k
  return f


def qrot(q, v):
  w, u = q[0], q[1:]
  return 2 * np.dot(u, v) * u + (w * w - np.dot(u, u)) * v + 2 * w * np.cross(
      u, v)


def qmul(u, v):
  return np.array([
      u[0] * v[0] - u[1] * v[1] - u[2] * v[2] - u[3] * v[3],
      u[0] * v[1] + u[1] * v[0] + u[2] * v[3] - u[3] * v[2],
      u[0] * v[2] - u[1] * v[3] + u[2] * v[0] + u[3] * v[1],
      u[0] * v[3] + u[1] * v[2] - u[2] * v[1] + u[3] * v[0]])


def seg_seg(p1, q1, p2, q2):
  """Closest points between segments p1q1 and p2q2 (Ericson 5.1.9)."""
  d1, d2, r = q1 - p1, q2 - p2, p1 - p2
  a, e, f = d1 @ d1, d2 @ d2, d2 @ r
  c = d1 @ r
  b = d1 @ d2
  den = a * e - b * b
  s = np.clip((b * f - c * e) / den, 0, 1) if den > 1e-14 else 0.0
  t = (b * s + f) / e
  if t < 0:
    t = 0.0
    s = np.clip(-c / a, 0, 1)
  elif t > 1:
    t = 1.0
    s = np.clip((b - c) / a, 0, 1)
  return p1 + d1 * s, p2 + d2 * t, den / (a * e)


def pt_seg(p, a, b):
  d = b - a
  t = np.clip((p - a) @ d / (d @ d), 0, 1)
  return a + t * d


def run(job, mon):
  import jax
  from jax import numpy as jp
  from brax import contact
  from brax.base import Transform
  from brax.io import mjcf
  from vf import gen

  for sc in range(job['first'], job['first'] + job['count']):
    rng = np.random.default_rng([job['seed'], sc, 10])
    nb = int(rng.integers(2, 4))
    tilted = rng.random() < 0.3
    pq = gen.rquat(rng) if tilted else np.array([1., 0, 0, 0])
    if tilted:
      # keep the tilt moderate so bodies placed above stay near the plane
      ax = gen.runit(rng)
      ang = rng.uniform(-0.6, 0.6)
      pq = np.concatenate([[np.cos(ang / 2)], np.sin(ang / 2) * ax])
      mon.count('scenes_tilted_plane')
    pp = np.array([0., 0, rng.uniform(-0.2, 0.2)])
    def elast():
      # special values 0 and 1 as well as generic ones
      return float(rng.choice([0.0, 1.0, rng.uniform(0, 1), rng.uniform(0, 1)]))
    # optional global default, and geoms left out of the tuple fall back to it
    default_el = float(rng.uniform(0.1, 0.9)) if rng.random() < 0.5 else None
    geoms = [dict(name='floor', typ='plane', body=-1, pos=pp, quat=pq,
                  el=elast())]
    bodies = ''
    for i in range(nb):
      gs = ''
      for k in range(int(rng.integers(1, 3))):
        typ = str(rng.choice(['sphere', 'capsule']))
        size = rng.uniform(0.05, 0.2, 1 if typ == 'sphere' else 2)
        g = dict(name='g%d_%d' % (i, k), typ=typ, body=i, size=size,
                 pos=rng.uniform(-.2, .2, 3), quat=gen.rquat(rng),
                 el=elast())
        geoms.append(g)
        gs += '<geom name="%s" type="%s" size="%s" pos="%s" quat="%s"/>' % (
            g['name'], typ, gen.fmt(size), gen.fmt(g['pos']),
            gen.fmt(g['quat']))
      bodies += '<body name="b%d" pos="0 0 1"><freejoint/>%s</body>' % (i, gs)
    in_tuple = [g for g in geoms
                if default_el is None or rng.random() < 0.8]
    for g in geoms:
      if g not in in_tuple:
        g['el'] = default_el
        mon.count('geoms_using_default_elasticity')
    els = ''.join('<element objtype="geom" objname="%s" prm="%r"/>' % (
        g['name'], g['el']) for g in in_tuple)
    num = '' if default_el is None else (
        '<numeric name="elasticity" data="%r"/>' % default_el)
    if not in_tuple:
      in_tuple = geoms[:1]
      els = '<element objtype="geom" objname="%s" prm="%r"/>' % (
          geoms[0]['name'], geoms[0]['el'])
    xml = ('<mujoco><custom>' + num + '<tuple name="elasticity">%s</tuple></custom>'
           '<worldbody><geom name="floor" type="plane" size="5 5 .1" '
           'pos="%s" quat="%s"/>%s</worldbody></mujoco>') % (
               els, gen.fmt(pp), gen.fmt(pq), bodies)
    sysb = mjcf.loads(xml)
    getc = jax.jit(lambda s_, x: contact.get(s_, x))
    pn = qrot(pq, np.array([0., 0, 1]))
    sys_used = sysb
    for pose in range(7):
      if pose == 5:
        # poses 5-6: the same scene with the body geoms re-attached at new
        # local offsets / orientations through sys.replace (as domain
        # randomisation does); contact.get must follow the system it is given
        gp = np.asarray(sysb.geom_pos).copy()
        gq = np.asarray(sysb.geom_quat).copy()
        for gi, g in enumerate(geoms):
          if g['body'] >= 0:
            g['pos'] = rng.uniform(-.2, .2, 3)
            g['quat'] = gen.rquat(rng)
            gp[gi], gq[gi] = g['pos'], g['quat']
        sys_used = sysb.replace(geom_pos=jp.array(gp), geom_quat=jp.array(gq))
        mon.count('scenes_with_reattached_geoms')
      xpos = rng.uniform(-0.3, 0.3, (nb, 3)) + pp + pn * rng.uniform(0.0, 0.5)
      xrot = np.array([gen.rquat(rng) for _ in range(nb)])
      c = getc(sys_used, Transform(pos=jp.array(xpos), rot=jp.array(xrot)))
      gg = np.asarray(c.geom)
      dist = np.asarray(c.dist)
      nrm = np.asarray(c.frame)[:, 0]
      l0, l1 = np.asarray(c.link_idx[0]), np.asarray(c.link_idx[1])
      el = np.asarray(c.elasticity)
      wit = lambda **kw: dict(scene=sc, seed=job['seed'], pose=pose, xml=xml,
                              xpos=xpos, xrot=xrot, **kw)

      def world(g):
        if g['body'] < 0:
          return g['pos'], g['quat']
        return (xpos[g['body']] + qrot(xrot[g['body']], g['pos']),
                qmul(xrot[g['body']], g['quat']))

      def ends(g, p, q):
        ax = qrot(q, np.array([0, 0, 1.]))
        return p - ax * g['size'][1], p + ax * g['size'][1]

      pairs = {}
      for r in range(len(dist)):
        pairs.setdefault((int(gg[r, 0]), int(gg[r, 1])), []).append(r)
      expect = {frozenset((a, b)) for a in range(len(geoms))
                for b in range(a + 1, len(geoms))
                if geoms[a]['body'] != geoms[b]['body']}
      got_pairs = {frozenset(p) for p in pairs}
      mon.check('pair_set', got_pairs == expect and
                all(len(p) == 2 for p in got_pairs),
                lambda: wit(got=sorted(map(sorted, got_pairs)),
                            expected=sorted(map(sorted, expect))))
      npen = nsep = 0
      for (a, b), rows in pairs.items():
        ga, gb = geoms[a], geoms[b]
        (pa, qa), (pb, qb) = world(ga), world(gb)
        for r in rows:
          mon.check('link_attribution',
                    l0[r] == ga['body'] and l1[r] == gb['body'],
                    lambda: wit(row=r, geoms=(a, b), link_idx=(l0[r], l1[r]),
                                expected=(ga['body'], gb['body'])))
          mon.check('elasticity_mean',
                    abs(el[r] - 0.5 * (ga['el'] + gb['el'])) <= 1e-12,
                    lambda: wit(row=r, got=el[r],
                                expected=0.5 * (ga['el'] + gb['el'])))
          mon.check('normal_unit', abs(np.linalg.norm(nrm[r]) - 1) <= 1e-9,
                    lambda: wit(row=r, normal=nrm[r]))
          if dist[r] < 0:
            npen += 1
          else:
            nsep += 1
        kinds = (ga['typ'], gb['typ'])
        kind = '-'.join(sorted(kinds, key=['plane', 'sphere',
                                           'capsule'].index))
        w2 = lambda **kw: wit(pair=(ga['name'], gb['name']), kind=kind,
                              dist=dist[rows], normal=nrm[rows], **kw)
        if 'plane' in kinds:
          # plane is always reported first by mjx; handle either order
          gp, go, po, qo, sgn = (ga, gb, pb, qb, 1.0) if (
              ga['typ'] == 'plane') else (gb, ga, pa, qa, -1.0)
          if go['typ'] == 'sphere':
            d = pn @ (po - pp) - go['size'][0]
            e = abs(dist[rows[0]] - d)
            mon.err('dist:' + kind, e)
            mon.check('dist:' + kind, len(rows) == 1 and e <= TOL,
                      lambda: w2(expected=d))
          else:
            e0, e1 = ends(go, po, qo)
            ds = sorted([pn @ (e0 - pp) - go['size'][0],
                         pn @ (e1 - pp) - go['size'][0]])
            e = (np.abs(np.sort(dist[rows]) - ds).max()
                 if len(rows) == 2 else np.inf)
            mon.err('dist:' + kind, e)
            mon.check('dist:' + kind, e <= TOL, lambda: w2(expected=ds))
          for r in rows:
            mon.check('normal:' + kind,
                      np.abs(nrm[r] - sgn * pn).max() <= 1e-9,
                      lambda: w2(expected_normal=sgn * pn))
          continue
        if kinds == ('sphere', 'sphere'):
          c1, c2 = pa, pb
          d = np.linalg.norm(pb - pa) - ga['size'][0] - gb['size'][0]
        elif 'sphere' in kinds:
          if ga['typ'] == 'sphere':
            e0, e1 = ends(gb, pb, qb)
            c1, c2 = pa, pt_seg(pa, e0, e1)
          else:
            e0, e1 = ends(ga, pa, qa)
            c1, c2 = pt_seg(pb, e0, e1), pb
          d = np.linalg.norm(c2 - c1) - ga['size'][0] - gb['size'][0]
        else:
          a0, a1 = ends(ga, pa, qa)
          b0, b1 = ends(gb, pb, qb)
          c1, c2, par = seg_seg(a0, a1, b0, b1)
          d = np.linalg.norm(c2 - c1) - ga['size'][0] - gb['size'][0]
          if par < 1e-6:
            mon.count('capsule_pairs_nearly_parallel_skipped')
            continue
        e = abs(dist[rows].min() - d)
        mon.err('dist:' + kind, e)
        mon.check('dist:' + kind, e <= TOL and (dist[rows] >= d - TOL).all(),
                  lambda: w2(expected=d))
        r0 = rows[int(np.argmin(dist[rows]))]
        sep = np.linalg.norm(c2 - c1)
        if sep > 1e-6:
          cosang = float(nrm[r0] @ (c2 - c1) / sep)
          mon.err('normal_1_minus_cos:' + kind, 1 - cosang)
          mon.check('normal:' + kind, cosang >= 1 - 2e-5,
                    lambda: w2(expected_direction=(c2 - c1) / sep,
                               cos=cosang))
      mon.count('rows_penetrating', npen)
      mon.count('rows_separated', nsep)
      mon.distinct('%d/%d' % (sc, pose), npen > 0 and nsep > 0)
      if sc == job['first'] and pose == 0:
        mon.sample(dict(scene=sc, geoms=[dict(name=g['name'], type=g['typ'],
                                              body=g['body']) for g in geoms],
                        tilted_plane=tilted, dist=dist, geom_pairs=gg,
                        link_idx=np.stack([l0, l1], 1)))
