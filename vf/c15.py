"""C15 — episode / auto-reset / evaluation accounting.

History checker: the recorded per-step outputs of the real wrappers around a
scripted environment are checked against an independent automaton of the
stated semantics (vf/scripted_env.automaton).
"""
import numpy as np

PROP = 'C15'
X64 = False
EXHAUSTIVE = True
EXHAUSTIVE_SCOPE = (
    'all 2^8 termination schedules of period 8 (one vmapped batch of 256 '
    'members) x episode_length 1..6 x action_repeat 1..3 x 3*episode_length '
    'wrapped steps through training.wrap; the evaluator, envs.create and '
    'random 32-bit schedules are sampled')
RULE = ('histories: wrapped rollouts of the scripted environment. One event = '
        'one wrapped step of one batch member compared with the automaton '
        '(reward, done, truncation, steps, reset observation and pipeline '
        'state), or one evaluator / unroll comparison. distinct = (mask, L, '
        'k); non-trivial = the history contains a termination and a time-limit '
        'cut, or a termination inside a repeated action')
ASSUMPTIONS = [
    'the scripted environment (vf/scripted_env.py) is a correct brax Env; its '
    'raw step counter and mask live in info and are not restored by auto-reset',
    'a termination in the middle of a repeated action followed by a '
    'non-terminal last sub-step leaves done/truncation unspecified by the '
    'property; the automaton adopts the observed done there and checks only '
    'reward sum and step count',
]


def config(tier):
  return {'workers': 14, 'job_timeout': 1200, 'wall_cap': 5000}


def plan(tier, seed):
  jobs = []
  for length in range(1, 7):
    for k in range(1, 4):
      jobs.append({'kind': 'wrap', 'L': length, 'k': k, 'period': 8,
                   'masks': 'all256', 'seed': seed})
  nr = 6 if tier == 'quick' else 60
  for i in range(nr):
    jobs.append({'kind': 'wrap', 'L': 0, 'k': 0, 'period': 32,
                 'masks': 'random', 'idx': i, 'seed': seed})
  ne = 14 if tier == 'quick' else 56
  for i in range(ne):
    jobs.append({'kind': 'evaluator', 'idx': i, 'seed': seed})
  for i in range(4 if tier == 'quick' else 24):
    jobs.append({'kind': 'create', 'idx': i, 'seed': seed})
  return jobs


def floors(tier):
  q = tier == 'quick'
  return {'ev:wrapped_step_accounting': 40000 if q else 60000,
          'ev:reset_after_episode_end': 10000,
          'ev:eval_metrics_first_episode_only': 5000,
          'ev:unroll_chains_observations': 120 if q else 500,
          'ev:evaluator_metrics': 40 if q else 150,
          'ev:create_unbatched_accounting': 40 if q else 300,
          'steps_with_termination': 5000, 'steps_with_time_cut': 5000,
          'steps_with_truncation': 3000, 'steps_ambiguous_mid_repeat': 1000}


def run(job, mon):
  import jax
  from jax import numpy as jp
  from vf import common
  common.stub_v1()
  from brax.envs.wrappers import training
  from vf.scripted_env import Scripted, automaton
  kind = job['kind']

  def compare(rec, masks, period, length, k, nsteps, label):
    """rec: dict of arrays [nsteps, B]."""
    for m_i, mask in enumerate(masks):
      exp = automaton(int(mask), period, length, k, nsteps,
                      observed_done=rec['done'][:, m_i])
      had_term = had_cut = had_amb = False
      for i, e in enumerate(exp):
        got = {f: float(rec[f][i, m_i]) for f in
               ('reward', 'done', 'trunc', 'steps', 't', 'tq')}
        ok = (got['reward'] == e['reward'] and got['steps'] == e['steps']
              and got['done'] == e['done'])
        if not e['ambiguous']:
          ok = ok and got['trunc'] == e['trunc']
        else:
          mon.count('steps_ambiguous_mid_repeat')
          had_amb = True
        if e['done'] and not e['trunc']:
          mon.count('steps_with_termination')
          had_term = True
        if e['steps'] >= length:
          mon.count('steps_with_time_cut')
          had_cut = True
        if e['trunc']:
          mon.count('steps_with_truncation')
        wit = lambda: dict(label=label, mask=int(mask), period=period,
                           L=length, k=k, step=i, got=got, expected=e,
                           done_history=rec['done'][:, m_i])
        mon.check('wrapped_step_accounting', ok, wit)
        if e['done']:
          mon.check('reset_after_episode_end',
                    got['t'] == 0 and got['tq'] == 0, wit)
        else:
          mon.check('continues_within_episode',
                    got['t'] == e['t'] and got['tq'] == e['t'], wit)
        if 'ep_reward' in rec:
          g2 = dict(ep_reward=float(rec['ep_reward'][i, m_i]),
                    ep_m=float(rec['ep_m'][i, m_i]),
                    ep_c=float(rec['ep_c'][i, m_i]),
                    ep_steps=float(rec['ep_steps'][i, m_i]),
                    active=float(rec['active'][i, m_i]))
          mon.check('eval_metrics_first_episode_only',
                    all(g2[f] == e[f] for f in g2),
                    lambda: dict(wit(), got_eval=g2))
      mon.distinct('%d/%d/%d/%d' % (mask, period, length, k),
                   (had_term and had_cut) or had_amb)

  def rollout(env, keys, nsteps, act_fn, eval_wrapped):
    s = jax.jit(env.reset)(keys)
    step = jax.jit(env.step)
    fields = ['reward', 'done', 'trunc', 'steps', 't', 'tq']
    if eval_wrapped:
      fields += ['ep_reward', 'ep_m', 'ep_c', 'ep_steps', 'active']
    rec = {f: [] for f in fields}
    s0 = s
    for i in range(nsteps):
      s = step(s, act_fn(i))
      rec['reward'].append(np.asarray(s.reward))
      rec['done'].append(np.asarray(s.done))
      rec['trunc'].append(np.asarray(s.info['truncation']))
      rec['steps'].append(np.asarray(s.info['steps']))
      rec['t'].append(np.asarray(s.obs[..., 0]))
      rec['tq'].append(np.asarray(s.pipeline_state.q[..., 0]))
      if eval_wrapped:
        em = s.info['eval_metrics']
        rec['ep_reward'].append(np.asarray(em.episode_metrics['reward']))
        rec['ep_m'].append(np.asarray(em.episode_metrics['m']))
        rec['ep_c'].append(np.asarray(em.episode_metrics['c']))
        rec['ep_steps'].append(np.asarray(em.episode_steps))
        rec['active'].append(np.asarray(em.active_episodes))
    return s0, {f: np.stack(v) for f, v in rec.items()}

  if kind == 'wrap':
    if job['masks'] == 'all256':
      length, k, period = job['L'], job['k'], job['period']
      masks = np.arange(256, dtype=np.uint32)
      nsteps = 3 * length
    else:
      rng = np.random.default_rng([job['seed'], job['idx'], 15])
      length, k = int(rng.integers(1, 13)), int(rng.integers(1, 4))
      period = 32
      masks = rng.integers(0, 2**32, 64, dtype=np.uint64).astype(np.uint32)
      # sparse schedules are the realistic ones
      masks[::2] &= rng.integers(0, 2**32, 32, dtype=np.uint64).astype(
          np.uint32)
      nsteps = 3 * length
    env = training.wrap(Scripted(period), episode_length=length,
                        action_repeat=k)
    env = training.EvalWrapper(env)
    keys = jp.array(np.stack([np.arange(len(masks), dtype=np.uint32), masks],
                             1))
    s0, rec = rollout(env, keys, nsteps,
                      lambda i: jp.full((len(masks), 1), float(i)), True)
    mon.check('reset_done_zero', float(jp.abs(s0.done).max()) == 0
              and float(jp.abs(s0.info['steps']).max()) == 0, dict(L=length))
    compare(rec, masks, period, length, k, nsteps,
            'training.wrap+EvalWrapper')
    mon.sample(dict(L=length, k=k, period=period, mask=int(masks[37 % len(
        masks)]), done=rec['done'][:, 37 % len(masks)],
                    reward=rec['reward'][:, 37 % len(masks)],
                    steps=rec['steps'][:, 37 % len(masks)],
                    truncation=rec['trunc'][:, 37 % len(masks)]))
    return

  if kind == 'evaluator':
    from brax.training import acting
    rng = np.random.default_rng([job['seed'], job['idx'], 1515])
    length, k = int(rng.integers(1, 9)), int(rng.integers(1, 4))
    period = 32
    nenv = 16
    env = training.wrap(Scripted(period), episode_length=length,
                        action_repeat=k)
    policy = lambda params: (
        lambda obs, key: (jp.zeros((obs.shape[0], 1)) + params, {}))
    key = jax.random.PRNGKey(int(rng.integers(0, 2**31 - 1)))
    ev = acting.Evaluator(env, policy, num_eval_envs=nenv,
                          episode_length=length, action_repeat=k, key=key)
    mets = ev.run_evaluation(jp.array(0.5), {}, aggregate_episodes=False)
    # recover the masks the evaluator drew: replicate its key handling
    _, unroll_key = jax.random.split(key)
    reset_keys = jax.random.split(unroll_key, nenv)
    masks = np.asarray(jax.random.key_data(reset_keys)
                       if jp.issubdtype(reset_keys.dtype, jax.dtypes.prng_key)
                       else reset_keys)[:, -1].astype(np.uint32)
    nsteps = length // k
    for i in range(nenv):
      exp = automaton(int(masks[i]), period, length, k, nsteps)
      if nsteps == 0:
        e = dict(ep_reward=0.0, ep_m=0.0, ep_c=0.0, ep_steps=0)
      else:
        if any(x['ambiguous'] for x in exp):
          mon.count('evaluator_members_skipped_ambiguous')
          continue
        e = exp[-1]
      got = dict(ep_reward=float(mets['eval/episode_reward'][i]),
                 ep_m=float(mets['eval/episode_m'][i]),
                 ep_c=float(mets['eval/episode_c'][i]))
      mon.check('evaluator_metrics',
                all(got[f] == e[f] for f in got),
                lambda: dict(L=length, k=k, mask=int(masks[i]), got=got,
                             expected=e))
      mon.distinct('ev/%d/%d/%d' % (masks[i], length, k), True)
    avg = float(mets['eval/avg_episode_length'])
    exp_steps = []
    for i in range(nenv):
      exp = automaton(int(masks[i]), period, length, k, nsteps)
      if any(x['ambiguous'] for x in exp):
        exp_steps = None
        break
      exp_steps.append(exp[-1]['ep_steps'] if exp else 0)
    if exp_steps is not None:
      mon.check('evaluator_avg_episode_length',
                abs(avg - np.mean(exp_steps)) < 1e-5,
                dict(L=length, k=k, got=avg, expected=float(np.mean(
                    exp_steps))))

    # generate_unroll: transitions chain and discount = 1 - done
    s0 = jax.jit(env.reset)(reset_keys)
    ul = int(rng.integers(2, 3 * length + 2))
    fin, data = acting.generate_unroll(
        env, s0, policy(jp.array(0.25)), key, unroll_length=ul,
        extra_fields=('truncation', 'steps'))
    obs = np.asarray(data.observation)
    nxt = np.asarray(data.next_observation)
    disc = np.asarray(data.discount)
    rew = np.asarray(data.reward)
    trunc = np.asarray(data.extras['state_extras']['truncation'])
    for i in range(nenv):
      exp = automaton(int(masks[i]), period, length, k, ul,
                      observed_done=1 - disc[:, i])
      ok = (obs[0, i] == np.asarray(s0.obs)[i]).all()
      ok = ok and (nxt[:-1, i] == obs[1:, i]).all()
      ok = ok and (nxt[-1, i] == np.asarray(fin.obs)[i]).all()
      ok = ok and all(disc[t, i] == 1 - exp[t]['done'] and
                      rew[t, i] == exp[t]['reward'] and
                      nxt[t, i, 0] == exp[t]['t'] for t in range(ul))
      ok = ok and all(trunc[t, i] == exp[t]['trunc'] for t in range(ul)
                      if not exp[t]['ambiguous'])
      ok = ok and (np.asarray(data.action)[:, i, 0] == 0.25).all()
      mon.check('unroll_chains_observations', ok,
                lambda: dict(L=length, k=k, mask=int(masks[i]),
                             obs=obs[:, i], next_obs=nxt[:, i],
                             discount=disc[:, i], expected=exp))
    mon.sample(dict(kind='evaluator', L=length, k=k, masks=masks[:4],
                    episode_reward=np.asarray(
                        mets['eval/episode_reward'])[:4]))
    return

  if kind == 'create':
    from brax import envs
    rng = np.random.default_rng([job['seed'], job['idx'], 151515])
    envs.register_environment('vf_scripted', Scripted)
    length, k = int(rng.integers(1, 9)), int(rng.integers(1, 4))
    period = 32
    env = envs.create('vf_scripted', episode_length=length, action_repeat=k,
                      period=period)
    nsteps = 3 * length
    for rep in range(4):
      mask = np.uint32(rng.integers(0, 2**32, dtype=np.uint64)
                       & rng.integers(0, 2**32, dtype=np.uint64))
      key = jp.array([rep, mask], dtype=jp.uint32)
      s0, rec = rollout(env, key, nsteps, lambda i: jp.array([float(i)]),
                        False)
      exp = automaton(int(mask), period, length, k, nsteps,
                      observed_done=rec['done'])
      for i, e in enumerate(exp):
        got = {f: float(rec[f][i]) for f in
               ('reward', 'done', 'trunc', 'steps', 't', 'tq')}
        ok = (got['reward'] == e['reward'] and got['steps'] == e['steps']
              and got['done'] == e['done']
              and (e['ambiguous'] or got['trunc'] == e['trunc'])
              and got['t'] == e['t'] and got['tq'] == e['t'])
        mon.check('create_unbatched_accounting', ok,
                  lambda: dict(L=length, k=k, mask=int(mask), step=i, got=got,
                               expected=e))
      mon.distinct('cr/%d/%d/%d' % (mask, length, k), True)
    # batched create path
    env = envs.create('vf_scripted', episode_length=length, action_repeat=k,
                      batch_size=5, period=period)
    s = jax.jit(env.reset)(jax.random.PRNGKey(int(rng.integers(0, 1000))))
    masks = np.asarray(s.info['mask'])
    step = jax.jit(env.step)
    dones, rews, steps = [], [], []
    for i in range(nsteps):
      s = step(s, jp.zeros((5, 1)))
      dones.append(np.asarray(s.done))
      rews.append(np.asarray(s.reward))
      steps.append(np.asarray(s.info['steps']))
    for m_i in range(5):
      exp = automaton(int(masks[m_i]), period, length, k, nsteps,
                      observed_done=np.stack(dones)[:, m_i])
      ok = all(dones[i][m_i] == e['done'] and rews[i][m_i] == e['reward']
               and steps[i][m_i] == e['steps'] for i, e in enumerate(exp))
      mon.check('create_batched_accounting', ok,
                lambda: dict(L=length, k=k, mask=int(masks[m_i])))
    return
