"""C03 — gradients through a few physics steps are finite and correct.

Relational monitor: reverse-mode gradient of a scalar loss vs central finite
differences of the same jitted loss in float64, plus finiteness at singular
inputs and at resting contacts.
"""
import numpy as np

PROP = 'C03'
X64 = True
RULE = ('models: generator forests of 1-4 links with mutually orthogonal '
        'stacked axes, every mix of hinge/slide stacks, gentle strengths, few '
        'solver iterations; loss = fixed random weights . (x.pos, xd.vel, q, '
        'qd) after init + n steps (n in 1..2 quick, 1..5 thorough); z = (q, '
        'qd, ctrl). finite: generic states and the singular inputs (q=0 with '
        'identity root quaternions, qd=0, ctrl=0; axis-aligned 90/180 degree '
        'root rotations; identity body frames with axis-aligned axes and '
        'anchors at the origin; bodies resting on / slightly inside a plane); '
        'correct: central differences (h=1e-5 and 1e-6) at generic states away '
        'from limits with collisions off. One event = one gradient evaluated. '
        'distinct = (topology, signature multiset, pipeline, n); non-trivial = '
        'model has a stacked joint or a slide')
ASSUMPTIONS = [
    'finite differences of the same jitted float64 loss are the reference; '
    'tolerance 1e-5 (generalized, spring) and 2e-3 (positional, whose '
    'position pass has allclose dead zones and 1e-6 regularisers), relative '
    'to 1+|fd|_inf, best of the two step sizes',
    'a comparison is dropped (counted) when the two one-sided differences '
    'disagree by more than 1e-3 relative: a kink between the stencil points',
]


K4 = 'grad-arccos-band:%s:second-stack-angle-within-4.5e-4-of-zero'
K5 = 'grad-dead-zone:positional:state-exactly-at-rest'


def config(tier):
  return {'workers': 14, 'job_timeout': 3000, 'wall_cap': 12000}


def plan(tier, seed):
  q = tier == 'quick'
  jobs = []
  n = 7 if q else 56
  for i in range(n):
    for p in range(3):
      jobs.append({'kind': 'model', 'seed': seed, 'idx': i, 'pipeline': p,
                   'nsteps': 1 + (i + p) % (2 if q else 5)})
  for i in range(2 if q else 20):
    for p in range(3):
      jobs.append({'kind': 'contact', 'seed': seed, 'idx': i, 'pipeline': p})
  # positional compiles longest
  jobs.sort(key=lambda j: (-j['pipeline'], -j.get('nsteps', 1)))
  return jobs


def floors(tier):
  k = 1 if tier == 'quick' else 7
  f = {}
  for p in ('generalized', 'spring', 'positional'):
    f['ev:gradient_finite:' + p] = 18 * k
    f['ev:gradient_finite_singular:' + p] = 25 * k
    f['ev:gradient_matches_finite_differences:' + p] = 7 * k
    f['ev:gradient_finite_contact:' + p] = 6 * k
  f['models_with_sss_stack_or_slide'] = 6 * k
  for p in ('generalized', 'spring', 'positional'):
    f['fd_compared_at_special_state:' + p] = 5 * k
  return f


def run(job, mon):
  import jax
  from jax import numpy as jp
  from vf import gen, phys
  pname = phys.PIPELINES[job['pipeline']]
  p = phys.pipeline(pname)
  idx = job['idx']

  def make_loss(sys_, mj, nsteps, w):
    nq, nv = mj.nq, mj.nv

    def loss(z):
      q, qd, a = z[:nq], z[nq:nq + nv], z[nq + nv:]
      st = p.init(sys_, q, qd)
      for _ in range(nsteps):
        st = p.step(sys_, st, a)
      return ((w[0] * st.x.pos).sum() + (w[1] * st.xd.vel).sum()
              + (w[2] * st.q).sum() + (w[3] * st.qd).sum())
    return loss

  def weights(rng, mj):
    return [jp.array(rng.normal(size=s)) for s in (
        (mj.nbody - 1, 3), (mj.nbody - 1, 3), (mj.nq,), (mj.nv,))]

  if job['kind'] == 'contact':
    rng = np.random.default_rng([job['seed'], idx, 33])
    shape = str(rng.choice(['sphere', 'capsule']))
    size = rng.uniform(0.05, 0.2, 2)
    child = rng.random() < 0.5
    g = ('type="sphere" size="%s"' % gen.fmt(size[:1]) if shape == 'sphere'
         else 'type="capsule" size="%s"' % gen.fmt(size))
    childxml = ('<body name="c" pos="0.1 0 0.3"><joint name="j" type="hinge" '
                'axis="0 1 0"/><geom type="sphere" size="0.05" mass="0.3"/>'
                '</body>') if child else ''
    xml = ('<mujoco><option timestep="0.002" iterations="4"/><custom>'
           '<numeric name="solver_maxls" data="4"/></custom><worldbody>'
           '<geom name="floor" type="plane" size="5 5 .1"/><body name="b">'
           '<freejoint/><geom name="g" %s mass="1"/>%s</body></worldbody>'
           '</mujoco>') % (g, childxml)
    sys_ = phys.load(xml)
    mj = sys_.mj_model
    nsteps = 1 + idx % 2
    lossf = make_loss(sys_, mj, nsteps, weights(rng, mj))
    gj = jax.jit(jax.grad(lossf))
    for pen in (0.0, 0.001, 0.01, -0.0005):
      if shape == 'sphere':
        quat, low = gen.rquat(rng), size[0]
      else:
        # lying capsule (both end contacts active) or standing on one end
        quat = np.array([np.sqrt(.5), 0, np.sqrt(.5), 0]) if (
            rng.random() < 0.5) else np.array([1., 0, 0, 0])
        low = size[0] if quat[2] else size[0] + size[1]
      q = np.concatenate([[0, 0, low - pen], quat, [0.0] * (mj.nq - 7)])
      z = jp.array(np.concatenate([q, np.zeros(mj.nv), np.zeros(mj.nu)]))
      gr = np.asarray(gj(z))
      mon.check('gradient_finite_contact:' + pname, np.isfinite(gr).all(),
                lambda: dict(case=idx, seed=job['seed'], pipeline=pname,
                             xml=xml, z=z, grad=gr, penetration=pen,
                             nsteps=nsteps))
    mon.distinct('contact|%d|%s' % (idx, pname), True)
    return

  rng = np.random.default_rng([job['seed'], idx, 3])
  variant = idx % 7
  kw = dict(ortho=True, strength='gentle', iterations=4,
            n_links=int(rng.integers(1, 5)))
  if variant == 0:
    # three stacked slides / pure stacks: the class that had NaN gradients
    kw.update(stack_kinds='slide', max_stack=3)
  elif variant == 1:
    kw.update(ortho=False, axis_aligned=True, anchors=False)
  elif variant == 2:
    kw.update(stack_kinds='invertible')
  elif variant == 3:
    kw.update(stack_kinds='hinge')
  spec = gen.gen_model(rng, **kw)
  if variant == 0:
    # make sure an 'sss' link exists
    b = spec['bodies'][-1]
    if not b['free']:
      ax = gen.ortho_axes(rng, 3)
      b['joints'] = [dict(name='%s_s%d' % (b['name'], k), type='slide',
                          axis=gen.L(ax[k]), pos=[0.0, 0.0, 0.0])
                     for k in range(3)]
      names = {j['name'] for bb in spec['bodies'] for j in bb['joints']}
      spec['acts'] = [a for a in spec['acts'] if a['joint'] in names]
  spec['custom_numeric'] = {'solver_maxls': [4]}
  xml = gen.to_xml(spec)
  sys_ = phys.load(xml)
  mj = sys_.mj_model
  nq, nv, nu = mj.nq, mj.nv, mj.nu
  sigs = sorted(gen.stack_sig(b) for b in spec['bodies'])
  interesting = any(('s' in s.rstrip('A')) or len(s.rstrip('A')) > 1
                    for s in sigs if s != 'f')
  if interesting:
    mon.count('models_with_sss_stack_or_slide')
  nsteps = job['nsteps']
  lossf = make_loss(sys_, mj, nsteps, weights(rng, mj))
  lj, gj = jax.jit(lossf), jax.jit(jax.grad(lossf))
  mon.distinct('%s|%s|%d' % (gen.topo_key(spec), pname, nsteps), interesting)
  wit = lambda **kw2: dict(model=idx, seed=job['seed'], pipeline=pname,
                           nsteps=nsteps, xml=xml, signatures=sigs, **kw2)

  def zvec(q, qd, a):
    return jp.array(np.concatenate([q, qd, a]))

  def identity_q():
    q = np.zeros(nq)
    for j in range(mj.njnt):
      if mj.jnt_type[j] == 0:
        q[mj.jnt_qposadr[j] + 3] = 1.0
    return q

  def fd_compare(z, gr, kind):
    """Central differences of the jitted loss at z vs the gradient gr."""
    best = None
    kink = False
    l0 = float(lj(z))
    for h in (1e-5, 1e-6):
      fd = np.zeros(len(gr))
      for i in range(len(gr)):
        e = np.zeros(len(gr))
        e[i] = h
        lp, lm = float(lj(z + e)), float(lj(z - e))
        fd[i] = (lp - lm) / (2 * h)
        if h == 1e-5:
          fwd, bwd = (lp - l0) / h, (l0 - lm) / h
          if abs(fwd - bwd) > 1e-3 * (1 + abs(fd[i])):
            kink = True
      err = float(np.abs(fd - gr).max() / (1 + np.abs(fd).max()))
      best = err if best is None else min(best, err)
    if kink:
      mon.count('fd_dropped_kink:' + pname)
      return
    tol = 2e-3 if pname == 'positional' else 1e-5
    mon.err('gradient_vs_fd:' + pname, best)
    if kind != 'generic':
      mon.count('fd_compared_at_special_state:' + pname)
    if best > tol and pname == 'positional' and kind == 'zero_velocity' and (
        dead_zone(z, gr, fd, l0)):
      # known finding K5: at a state exactly at rest the position pass of the
      # positional pipeline sits inside safe_norm's `allclose(x, 0)` dead zone
      # (width 1e-8): autodiff differentiates the flat spot (0) while any
      # finite perturbation sees the constraint response around it
      mon.count('ev:gradient_matches_finite_differences:' + pname)
      mon.known(K5, lambda: wit(z=z, grad=gr, fd=fd, err=best, kind=kind),
                monitor='gradient_matches_finite_differences:' + pname)
      return
    if best > tol and pname != 'generalized' and in_arccos_band(z):
      # known finding K4: the custom JVP of safe_arccos clips its argument at
      # 1 - 1e-7, so the derivative of a reported second stack angle is damped
      # whenever that angle is within 4.5e-4 rad of 0
      mon.count('ev:gradient_matches_finite_differences:' + pname)
      mon.known(K4 % pname, lambda: wit(z=z, grad=gr, fd=fd, err=best,
                                        kind=kind),
                monitor='gradient_matches_finite_differences:' + pname)
      return
    mon.check('gradient_matches_finite_differences:' + pname, best <= tol,
              lambda: wit(z=z, grad=gr, fd=fd, err=best, kind=kind))

  def dead_zone(z, gr, fd, l0):
    """True if, for the worst component, a central difference with h = 3e-9
    (inside safe_norm's 1e-8 neighbourhood) follows the autodiff slope while
    the ordinary finite difference does not: a flat spot at the point."""
    i = int(np.argmax(np.abs(fd - gr)))
    e = np.zeros(len(gr))
    e[i] = 3e-9
    slope_small = (float(lj(z + e)) - float(lj(z - e))) / 6e-9
    return abs(slope_small - gr[i]) <= 0.1 * abs(fd[i] - gr[i])

  def in_arccos_band(z):
    """True if, at init or after any of the steps, the second coordinate of
    a link with >= 2 stacked joints is within 6e-4 rad of 0."""
    def traj(z):
      q, qd, a = z[:nq], z[nq:nq + nv], z[nq + nv:]
      st = p.init(sys_, q, qd)
      qs_ = [st.q]
      for _ in range(nsteps):
        st = p.step(sys_, st, a)
        qs_.append(st.q)
      return jp.stack(qs_)
    qs_ = np.asarray(jax.jit(traj)(z))
    second = []
    for b_ in range(1, mj.nbody):
      js = [j for j in range(mj.njnt) if mj.jnt_bodyid[j] == b_
            and mj.jnt_type[j] != 0]
      if len(js) >= 2:
        second.append(mj.jnt_qposadr[js[1]])
    return bool(second) and bool((np.abs(qs_[:, second]) < 6e-4).any())

  # generic states: finite + finite differences
  for s in range(3):
    q, qd = gen.state_inside_limits(rng, mj, frac=0.6, qscale=0.8,
                                    qdscale=0.3)
    a = rng.uniform(-1, 1, nu)
    z = zvec(q, qd, a)
    gr = np.asarray(gj(z))
    fin = bool(np.isfinite(gr).all())
    mon.check('gradient_finite:' + pname, fin,
              lambda: wit(z=z, grad=gr, kind='generic'))
    if fin and s < 2:
      fd_compare(z, gr, 'generic')
  # special but smooth points: the gradient must also be *correct* there.
  # (a) joint coordinates of order 1e-3..1e-2 (just off the default pose),
  # (b) a generic pose with exactly zero velocity and control. Only when the
  # default pose is strictly inside every range (no limit switching nearby).
  zero_inside = all(
      (not mj.jnt_limited[j]) or (mj.jnt_range[j][0] < -0.05
                                  and mj.jnt_range[j][1] > 0.05)
      for j in range(mj.njnt) if mj.jnt_type[j] != 0)
  specials = []
  if zero_inside:
    q = identity_q()
    for j in range(mj.njnt):
      if mj.jnt_type[j] != 0:
        q[mj.jnt_qposadr[j]] = float(rng.choice([-1, 1]) * 10 ** rng.uniform(
            -3, -2))
    specials.append(('near_zero_pose', q, rng.uniform(-0.3, 0.3, nv),
                     rng.uniform(-1, 1, nu)))
  q, _ = gen.state_inside_limits(rng, mj, frac=0.6, qscale=0.8)
  specials.append(('zero_velocity', q, np.zeros(nv), np.zeros(nu)))
  for kind_, q, qd, a in specials:
    z = zvec(q, qd, a)
    gr = np.asarray(gj(z))
    if mon.check('gradient_finite_singular:' + pname, np.isfinite(gr).all(),
                 lambda: wit(z=z, grad=gr, kind=kind_)):
      fd_compare(z, gr, kind_)
  # singular inputs: finite only
  sing = [('all_zero', identity_q(), np.zeros(nv), np.zeros(nu))]
  q, _ = gen.state_inside_limits(rng, mj, frac=0.6, qscale=0.8)
  sing.append(('generic_q_zero_velocity', q, np.zeros(nv), np.zeros(nu)))
  sing.append(('zero_q_generic_velocity', identity_q(),
               rng.uniform(-0.3, 0.3, nv), rng.uniform(-1, 1, nu)))
  for axis in range(3):
    for ang in (np.pi / 2, np.pi):
      qq = identity_q()
      for j in range(mj.njnt):
        if mj.jnt_type[j] == 0:
          ad = mj.jnt_qposadr[j]
          qq[ad + 3:ad + 7] = 0
          qq[ad + 3] = np.cos(ang / 2)
          qq[ad + 4 + axis] = np.sin(ang / 2)
      sing.append(('root_rot_axis%d_%.0fdeg' % (axis, np.degrees(ang)), qq,
                   np.zeros(nv), np.zeros(nu)))
      if not (mj.jnt_type == 0).any():
        break
  for tag, q, qd, a in sing[:9]:
    z = zvec(q, qd, a)
    gr = np.asarray(gj(z))
    mon.check('gradient_finite_singular:' + pname, np.isfinite(gr).all(),
              lambda: wit(z=z, grad=gr, kind=tag))
  if idx % 5 == 0:
    # as shipped: float32
    with jax.enable_x64(False):
      sys32 = phys.load(xml)  # float32 system, as a user without x64 gets
      z32 = jp.array(np.concatenate([identity_q(), np.zeros(nv),
                                     np.zeros(nu)]), dtype=jp.float32)
      w32 = [jp.asarray(np.asarray(x), dtype=jp.float32)
             for x in weights(rng, mj)]
      g32 = np.asarray(jax.jit(jax.grad(make_loss(sys32, mj, nsteps, w32)))(
          z32))
    mon.check('gradient_finite_float32:' + pname, np.isfinite(g32).all(),
              lambda: wit(grad=g32, kind='float32 all_zero'))
  if idx < 2:
    mon.sample(dict(model=idx, pipeline=pname, nsteps=nsteps,
                    signatures=sigs, dim_z=int(nq + nv + nu)))
