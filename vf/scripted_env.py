"""A scripted deterministic environment for the wrapper monitors (C15, C07).

Not a model of brax: a tiny brax.envs.Env whose behaviour is fully determined
by a per-member termination mask, so that the *wrappers under test* can be
observed exactly.

  pipeline_state.q[0]  episode-local step counter t (restored by auto-reset)
  info['n']            raw step counter (never restored)
  info['mask']         termination schedule: done at raw step n iff bit
                       (n mod period) of the mask, taken from the low word of
                       the reset key
  reward               n + 1 at raw step n (sums identify the sub-steps)
  obs                  [t, first action component, member tag]
  metrics['m']         = reward, metrics['c'] = 1
"""
import jax
from jax import numpy as jp

from brax import base
from brax.envs.base import Env, State


class Scripted(Env):

  def __init__(self, period=8, act_size=1):
    self.period = period
    self._act = act_size

  def reset(self, rng):
    if jp.issubdtype(rng.dtype, jax.dtypes.prng_key):
      rng = jax.random.key_data(rng)
    mask = rng[-1].astype(jp.uint32)
    tag = (rng[0].astype(jp.uint32) % 1000).astype(jp.zeros(()).dtype)
    ps = base.State(q=jp.zeros(1), qd=jp.zeros(1), x=base.Transform.zero((1,)),
                    xd=base.Motion.zero((1,)), contact=None)
    info = {'n': jp.zeros((), jp.int32), 'mask': mask, 'tag': tag}
    obs = jp.array([0.0, 0.0, 0.0]).at[2].set(tag)
    return State(ps, obs, jp.zeros(()), jp.zeros(()),
                 {'m': jp.zeros(()), 'c': jp.zeros(())}, info)

  def step(self, state, action):
    n = state.info['n']
    t = state.pipeline_state.q[0] + 1
    bit = (n % self.period).astype(jp.uint32)
    ftype = state.reward.dtype  # float32, or float64 under jax_enable_x64
    done = ((state.info['mask'] >> bit) & 1).astype(ftype)
    reward = (n + 1).astype(ftype)
    ps = state.pipeline_state.replace(q=jp.array([t]))
    info = dict(state.info)
    info['n'] = n + 1
    obs = jp.array([0.0, 0.0, 0.0]).at[0].set(t).at[1].set(action[0]).at[
        2].set(state.info['tag'])
    mets = dict(state.metrics)
    mets['m'] = reward
    mets['c'] = jp.ones(())
    return state.replace(pipeline_state=ps, obs=obs, reward=reward, done=done,
                         metrics=mets, info=info)

  @property
  def observation_size(self):
    return 3

  @property
  def action_size(self):
    return self._act

  @property
  def backend(self):
    return 'scripted'


def automaton(mask, period, length, repeat, nsteps, observed_done=None):
  """Reference semantics of EpisodeWrapper + AutoResetWrapper + EvalWrapper.

  Returns one dict per wrapped step. Where a termination happens in the middle
  of a repeated action and the last sub-step is not terminal, the property does
  not fix the done flag: the automaton then adopts the observed one
  (`observed_done[i]`) and marks the step `ambiguous`.
  """
  out = []
  n = t = steps = 0
  prev_done = False
  active = True
  ep_reward = ep_m = ep_c = 0.0
  ep_steps = 0
  for i in range(nsteps):
    if prev_done:
      steps = 0
    rew = 0
    last = 0
    mid = False
    for s in range(repeat):
      last = (mask >> (n % period)) & 1
      if last and s < repeat - 1:
        mid = True
      rew += n + 1
      n += 1
      t += 1
    steps += repeat
    cut = steps >= length
    ambiguous = bool(mid and not last)
    if ambiguous and observed_done is not None and not cut:
      done = int(observed_done[i])
    else:
      done = 1 if (cut or last) else 0
    trunc = 1 if (cut and not last) else 0
    if active:
      ep_reward += rew
      ep_m += n  # metric 'm' is the reward of the last sub-step = n
      ep_c += 1
      ep_steps = steps
    if done:
      t = 0
    out.append(dict(reward=rew, done=done, trunc=trunc, steps=steps, t=t,
                    ambiguous=ambiguous, ep_reward=ep_reward, ep_m=ep_m,
                    ep_c=ep_c, ep_steps=ep_steps,
                    active=1 if (active and not done) else 0))
    if active and done:
      active = False
    prev_done = bool(done)
  return out
