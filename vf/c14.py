"""C14 — unsupported models rejected; accepted models load consistently.

Fault injection into the *input*: exactly one unsupported feature is injected
at a random eligible element of a generator model; the outcome of mjcf.loads +
each native pipeline's init is the event. Clean models are compared with the
spec (not with brax) and with MuJoCo's body poses.
"""
import numpy as np

PROP = 'C14'
X64 = True
RULE = ('models: generator forests (1-6 links) clean, or with exactly one of '
        '24 unsupported-feature variants injected at a random eligible '
        'element (random geom incl. the first, random joint, random actuator, '
        'new body under a random parent). One event = one (model, pipeline) '
        'outcome, or one structural field of an accepted system compared with '
        'the spec. distinct = (topology class, feature, injection site); '
        'non-trivial = model has >= 2 links')
ASSUMPTIONS = [
    'the list of unsupported features is the one in the property statement; a '
    'feature counts as rejected when mjcf.loads raises or every native '
    "pipeline's init raises",
    'coordinate counts / joint addresses are recomputed from the spec in '
    'document order (MuJoCo convention: 7/6 per free joint, 1/1 otherwise)',
]

FEATURES = [
    'integrator_rk4', 'integrator_implicit', 'integrator_implicitfast',
    'cone_elliptic', 'wind', 'fluid_ellipsoid', 'impratio', 'trn_site',
    'trn_tendon', 'trn_jointinparent', 'gain_affine', 'gain_muscle',
    'bias_muscle', 'joint_ref', 'ball', 'ball_limited', 'free_stiffness',
    'solmix', 'priority', 'solmix_first_geom', 'priority_first_geom',
    'cylinder_long_colliding', 'stack_different_anchor', 'stack_free_hinge',
]
CONTROLS = ['cylinder_long_noncolliding', 'solmix_all_equal']


def config(tier):
  return {'workers': 14, 'job_timeout': 900, 'wall_cap': 4000}


def plan(tier, seed):
  jobs = []
  nclean = 42 if tier == 'quick' else 308
  per = 3 if tier == 'quick' else 11
  for i in range(0, nclean, per):
    jobs.append({'kind': 'clean', 'seed': seed, 'first': i, 'count': per})
  ninj = 14 if tier == 'quick' else 140
  for i in range(ninj):
    jobs.append({'kind': 'inject', 'seed': seed, 'idx': i})
  return jobs


def floors(tier):
  k = 1 if tier == 'quick' else 7
  f = {'ev:unsupported_feature_rejected': 14 * len(FEATURES) * 3 // 2 * (
      1 if tier == 'quick' else 10),
       'ev:clean_model_accepted': 100 * k, 'ev:coordinate_counts': 35 * k,
       'ev:link_types': 35 * k, 'ev:link_parents': 35 * k,
       'ev:actuator_indices': 35 * k, 'ev:init_q': 35 * k,
       'ev:init_pose_equals_reference': 100 * k,
       'ev:supported_control_accepted': 20,
       'ev:inplace_injected_feature_rejected': 100 * k}
  for feat in FEATURES:
    f['injected:' + feat] = 10 * (1 if tier == 'quick' else 10)
  return f


def inject(root, feat, rng):
  """Mutates the ElementTree in place; returns a site description."""
  from xml.etree import ElementTree as ET
  from vf import gen
  opt = root.find('option')
  wb = root.find('worldbody')
  bodies = list(wb.iter('body'))
  geoms = [g for g in wb.iter('geom')]
  joints = [j for j in wb.iter('joint')]
  act = root.find('actuator')
  if act is None:
    act = ET.SubElement(root, 'actuator')

  def pick(seq):
    return seq[int(rng.integers(len(seq)))]

  def new_body(joint_xml_attrs, geom_attrs=None, tag='joint'):
    host = pick([wb] + bodies)
    b = ET.SubElement(host, 'body', dict(
        name='inj', pos=gen.fmt(rng.uniform(-.5, .5, 3))))
    ET.SubElement(b, tag, joint_xml_attrs)
    ET.SubElement(b, 'geom', geom_attrs or dict(
        type='sphere', size='0.1', contype='0', conaffinity='0'))
    return host.get('name', 'world')

  if feat.startswith('integrator_'):
    opt.set('integrator', {'rk4': 'RK4', 'implicit': 'implicit',
                           'implicitfast': 'implicitfast'}[feat[11:]])
    return 'option'
  if feat == 'cone_elliptic':
    opt.set('cone', 'elliptic')
    return 'option'
  if feat == 'wind':
    opt.set('wind', gen.fmt(rng.uniform(0.1, 2, 3) * rng.choice([-1, 1], 3)))
    return 'option'
  if feat == 'impratio':
    opt.set('impratio', repr(float(rng.choice([0.5, 2.0, 10.0]))))
    return 'option'
  if feat == 'fluid_ellipsoid':
    g = pick(geoms)
    g.set('fluidshape', 'ellipsoid')
    return g.get('name')
  if feat in ('solmix', 'priority'):
    g = pick(geoms[1:]) if len(geoms) > 1 else None
    if g is None:
      # need a second geom for the setting to be "mixed"
      b = bodies[0]
      ET.SubElement(b, 'geom', dict(name='g_extra', type='sphere', size='0.1',
                                    contype='0', conaffinity='0'))
      g = pick(list(wb.iter('geom'))[1:])
    g.set(feat, '2')
    return g.get('name')
  if feat in ('solmix_first_geom', 'priority_first_geom'):
    if len(geoms) < 2:
      ET.SubElement(bodies[0], 'geom', dict(
          name='g_extra', type='sphere', size='0.1', contype='0',
          conaffinity='0'))
    geoms[0].set(feat.split('_')[0], '2')
    return geoms[0].get('name')
  if feat == 'joint_ref':
    if not joints:
      new_body(dict(name='injj', type='hinge', axis='0 1 0', ref='0.3'))
      return 'new body'
    j = pick(joints)
    j.set('ref', repr(float(rng.uniform(0.1, 1) * rng.choice([-1, 1]))))
    return j.get('name')
  if feat == 'stack_different_anchor':
    cands = [b for b in bodies if b.find('joint') is not None
             and len(b.findall('joint')) < 3]
    if not cands:
      host = new_body(dict(name='injj', type='hinge', axis='0 1 0'))
      b = [x for x in wb.iter('body') if x.get('name') == 'inj'][0]
    else:
      b = pick(cands)
    first = b.find('joint')
    p0 = np.fromstring(first.get('pos', '0 0 0'), sep=' ')
    j = ET.Element('joint', dict(
        name='injj2', type=str(rng.choice(['hinge', 'slide'])),
        axis=gen.fmt(gen.runit(rng)),
        pos=gen.fmt(p0 + rng.uniform(0.05, 0.3, 3))))
    idx = list(b).index(b.findall('joint')[-1]) + 1
    b.insert(idx, j)
    return b.get('name')
  if feat == 'stack_free_hinge':
    b = ET.SubElement(wb, 'body', dict(name='inj', pos='1 0 1'))
    ET.SubElement(b, 'freejoint', dict(name='injf'))
    ET.SubElement(b, 'joint', dict(name='injj', type='hinge', axis='0 0 1'))
    ET.SubElement(b, 'geom', dict(type='sphere', size='0.1', contype='0',
                                  conaffinity='0'))
    return 'world'
  if feat == 'ball':
    return new_body(dict(name='injj', type='ball'))
  if feat == 'ball_limited':
    return new_body(dict(name='injj', type='ball', range='0 1'))
  if feat == 'free_stiffness':
    b = ET.SubElement(wb, 'body', dict(name='inj', pos='1 0 1'))
    ET.SubElement(b, 'joint', dict(name='injj', type='free',
                                   stiffness=repr(float(rng.uniform(.1, 5)))))
    ET.SubElement(b, 'geom', dict(type='sphere', size='0.1', contype='0',
                                  conaffinity='0'))
    return 'world'
  if feat in ('cylinder_long_colliding', 'cylinder_long_noncolliding'):
    b = pick(bodies)
    at = dict(name='inj_cyl', type='cylinder', size='0.1 %r' % float(
        rng.uniform(0.002, 0.3)), mass='0.5')
    if feat.endswith('noncolliding'):
      at.update(contype='0', conaffinity='0')
    elif rng.random() < 0.5:
      # colliding through only one of the two masks
      at.update(contype='0', conaffinity='1') if rng.random() < .5 else (
          at.update(contype='1', conaffinity='0'))
    ET.SubElement(b, 'geom', at)
    return b.get('name')
  if feat == 'solmix_all_equal':
    for g in wb.iter('geom'):
      g.set('solmix', '2')
    return 'all geoms'
  # actuator features: need a joint (and a site / tendon)
  if not joints:
    new_body(dict(name='injj', type='hinge', axis='0 1 0'))
    joints = [j for j in wb.iter('joint')]
  jn = pick(joints).get('name')
  existing = list(act)
  if feat == 'trn_site':
    b = pick(bodies)
    ET.SubElement(b, 'site', dict(name='inj_site', pos='0 0 0.1'))
    new = ET.Element('motor', dict(name='inja', site='inj_site',
                                   gear='0 0 1 0 0 0'))
  elif feat == 'trn_tendon':
    t = ET.SubElement(root, 'tendon')
    fx = ET.SubElement(t, 'fixed', dict(name='inj_t'))
    ET.SubElement(fx, 'joint', dict(joint=jn, coef='1'))
    new = ET.Element('motor', dict(name='inja', tendon='inj_t'))
  elif feat == 'trn_jointinparent':
    new = ET.Element('general', dict(name='inja', jointinparent=jn))
  elif feat == 'gain_affine':
    new = ET.Element('general', dict(name='inja', joint=jn, gaintype='affine',
                                     gainprm='1 1 1'))
  elif feat == 'gain_muscle':
    new = ET.Element('muscle', dict(name='inja', joint=jn))
  elif feat == 'bias_muscle':
    new = ET.Element('general', dict(name='inja', joint=jn,
                                     biastype='muscle'))
  else:
    raise ValueError(feat)
  # random position among the existing actuators (first, middle, last)
  act.insert(int(rng.integers(0, len(existing) + 1)), new)
  return 'actuator on ' + jn


def run(job, mon):
  import jax
  from jax import numpy as jp
  import mujoco
  from xml.etree import ElementTree as ET
  from brax.io import mjcf
  from brax.generalized import pipeline as gp
  from brax.spring import pipeline as sp
  from brax.positional import pipeline as pp
  from vf import gen
  pipes = [('generalized', gp), ('spring', sp), ('positional', pp)]

  if job['kind'] == 'inject':
    rng = np.random.default_rng([job['seed'], job['idx'], 14])
    for feat in FEATURES + CONTROLS:
      spec = gen.gen_model(rng, collide=bool(rng.random() < 0.3),
                           plane=bool(rng.random() < 0.3))
      root = ET.fromstring(gen.to_xml(spec))
      site = inject(root, feat, rng)
      xml = ET.tostring(root, encoding='unicode')
      outcomes = {}
      try:
        sys_ = mjcf.loads(xml)
        outcomes['loads'] = 'ok'
      except Exception as e:  # pylint: disable=broad-except
        outcomes['loads'] = type(e).__name__
        sys_ = None
      if sys_ is not None:
        for name, p in pipes:
          try:
            p.init(sys_, sys_.init_q, jp.zeros(sys_.qd_size()))
            outcomes[name] = 'ACCEPTED'
          except Exception as e:  # pylint: disable=broad-except
            outcomes[name] = type(e).__name__
      wit = lambda: dict(feature=feat, site=site, outcomes=outcomes, xml=xml,
                         seed=job['seed'], idx=job['idx'])
      nl = len(spec['bodies'])
      mon.distinct('%s|%s|%s' % (gen.topo_key(spec), feat, site), nl >= 2)
      if feat in CONTROLS:
        ok = outcomes['loads'] == 'ok' and all(
            outcomes.get(n) == 'ACCEPTED' for n, _ in pipes)
        mon.check('supported_control_accepted', ok, wit)
        continue
      mon.count('injected:' + feat)
      if outcomes['loads'] != 'ok':
        mon.count('rejected_by:loads')
        mon.count('ev:unsupported_feature_rejected', 2)
        mon.check('unsupported_feature_rejected', True)
        continue
      for name, _ in pipes:
        mon.count('rejected_by:' + str(outcomes[name]))
        mon.check('unsupported_feature_rejected',
                  outcomes[name] != 'ACCEPTED',
                  lambda: dict(wit(), pipeline=name))
      if feat == FEATURES[job['idx'] % len(FEATURES)]:
        mon.sample(dict(feature=feat, site=site, outcomes=outcomes))
    return

  for c in range(job['first'], job['first'] + job['count']):
    rng = np.random.default_rng([job['seed'], c, 1414])
    spec = gen.gen_model(rng, collide=bool(rng.random() < 0.3),
                         plane=bool(rng.random() < 0.3))
    custom_init = rng.random() < 0.3
    # (a custom init_qpos of length 1 crashes mjcf._check_custom with an
    # IndexError on a 0-d array; loading a supported model is not part of the
    # property statement, so that input is not generated -- see DESIGN.md)
    order = gen.dfs_order(spec)
    bodies = spec['bodies']
    nq = sum(7 if bodies[b]['free'] else len(bodies[b]['joints'])
             for b in order)
    nv = sum(6 if bodies[b]['free'] else len(bodies[b]['joints'])
             for b in order)
    custom_init = custom_init and nq >= 2
    if custom_init:
      iq = rng.uniform(-0.5, 0.5, nq)
      a = 0
      for b in order:
        if bodies[b]['free']:
          iq[a + 3:a + 7] = gen.rquat(rng)
          a += 7
        else:
          a += len(bodies[b]['joints'])
      spec['custom_numeric'] = {'init_qpos': iq}
    xml = gen.to_xml(spec)
    wit = lambda **kw: dict(model=c, seed=job['seed'], xml=xml, **kw)
    try:
      sys_ = mjcf.loads(xml)
    except Exception as e:  # pylint: disable=broad-except
      mon.check('clean_model_accepted', False,
                wit(stage='loads', error=repr(e)))
      continue
    mon.distinct(gen.topo_key(spec), len(bodies) >= 2)
    # spec-side expectations, document order
    qadr, dadr = {}, {}
    a = d = 0
    types = ''
    for b in order:
      if bodies[b]['free']:
        a, d = a + 7, d + 6
        types += 'f'
      else:
        for j in bodies[b]['joints']:
          qadr[j['name']], dadr[j['name']] = a, d
          a, d = a + 1, d + 1
        types += str(len(bodies[b]['joints']))
    pos = {b: k for k, b in enumerate(order)}
    parents = tuple(-1 if bodies[b]['parent'] == -1
                    else pos[bodies[b]['parent']] for b in order)
    mon.check('coordinate_counts',
              (sys_.q_size(), sys_.qd_size(), sys_.act_size(),
               sys_.num_links()) == (nq, nv, len(spec['acts']), len(order)),
              lambda: wit(got=(sys_.q_size(), sys_.qd_size(),
                               sys_.act_size(), sys_.num_links()),
                          expected=(nq, nv, len(spec['acts']), len(order))))
    mon.check('link_types', sys_.link_types == types,
              lambda: wit(got=sys_.link_types, expected=types))
    lp = tuple(int(x) for x in sys_.link_parents)
    mon.check('link_parents',
              lp == parents and all(p < i for i, p in enumerate(lp)),
              lambda: wit(got=lp, expected=parents))
    mon.check('link_names',
              list(sys_.link_names) == [bodies[b]['name'] for b in order],
              lambda: wit(got=list(sys_.link_names)))
    eq = [qadr[a_['joint']] for a_ in spec['acts']]
    ed = [dadr[a_['joint']] for a_ in spec['acts']]
    mon.check('actuator_indices',
              [int(x) for x in np.asarray(sys_.actuator.q_id)] == eq and
              [int(x) for x in np.asarray(sys_.actuator.qd_id)] == ed,
              lambda: wit(q_id=np.asarray(sys_.actuator.q_id), expected_q=eq,
                          qd_id=np.asarray(sys_.actuator.qd_id),
                          expected_qd=ed))
    # expected initial coordinates from the spec
    if custom_init:
      exp_q = np.asarray(iq)
    else:
      exp_q = np.zeros(nq)
      a = 0
      for b in order:
        if bodies[b]['free']:
          exp_q[a:a + 3] = bodies[b]['pos']
          exp_q[a + 3:a + 7] = bodies[b]['quat']
          a += 7
        else:
          a += len(bodies[b]['joints'])
    mon.check('init_q', np.abs(np.asarray(sys_.init_q) - exp_q).max() <= 1e-12
              if nq else True,
              lambda: wit(got=np.asarray(sys_.init_q), expected=exp_q))
    mj = sys_.mj_model
    dd = mujoco.MjData(mj)
    dd.qpos[:] = exp_q
    mujoco.mj_forward(mj, dd)
    for name, p in pipes:
      try:
        st = jax.jit(lambda q, qd, p=p: p.init(sys_, q, qd))(
            sys_.init_q, jp.zeros(sys_.qd_size()))
      except Exception as e:  # pylint: disable=broad-except
        mon.check('clean_model_accepted', False,
                  wit(stage=name, error=repr(e)))
        continue
      mon.check('clean_model_accepted', True)
      xp, xr = np.asarray(st.x.pos), np.asarray(st.x.rot)
      e = np.abs(xp - dd.xpos[1:]).max()
      e = max(e, np.minimum(np.abs(xr - dd.xquat[1:]).max(1),
                            np.abs(xr + dd.xquat[1:]).max(1)).max())
      mon.err('init_pose', e)
      mon.check('init_pose_equals_reference',
                e <= 1e-9 and np.asarray(st.q).shape == (nq,)
                and np.asarray(st.qd).shape == (nv,),
                lambda: wit(pipeline=name, err=e))
    # a feature injected into the *same* MjModel object after it was accepted
    # once must still be refused (how brax's own tests inject features)
    import mujoco as _mj
    inplace = []
    if mj.ngeom >= 2:
      inplace.append(('priority', lambda: mj.geom_priority.__setitem__(
          int(rng.integers(1, mj.ngeom)), 1),
                      lambda: mj.geom_priority.__setitem__(slice(None), 0)))
    inplace += [
        ('integrator', lambda: setattr(mj.opt, 'integrator', 1),
         lambda: setattr(mj.opt, 'integrator', 0)),
        ('cone', lambda: setattr(mj.opt, 'cone', 1),
         lambda: setattr(mj.opt, 'cone', 0)),
        ('impratio', lambda: setattr(mj.opt, 'impratio', 2.0),
         lambda: setattr(mj.opt, 'impratio', 1.0)),
        ('wind', lambda: mj.opt.wind.__setitem__(0, 1.0),
         lambda: mj.opt.wind.__setitem__(0, 0.0)),
    ]
    if mj.nu:
      inplace.append(('trntype', lambda: mj.actuator_trntype.__setitem__(
          int(rng.integers(0, mj.nu)), 2),
                      lambda: mj.actuator_trntype.__setitem__(slice(None), 0)))
    name_f, do, undo = inplace[int(rng.integers(len(inplace)))]
    do()
    try:
      for name, p in pipes:
        try:
          p.init(sys_, sys_.init_q, jp.zeros(sys_.qd_size()))
          accepted = True
        except Exception:  # pylint: disable=broad-except
          accepted = False
        mon.check('inplace_injected_feature_rejected', not accepted,
                  lambda: wit(feature=name_f, pipeline=name,
                              note='feature set on sys.mj_model after the '
                              'model had been accepted once'))
    finally:
      undo()
    if c == job['first']:
      mon.sample(dict(model=c, link_types=types, link_parents=parents,
                      q_size=nq, qd_size=nv, act_size=len(spec['acts']),
                      custom_init_qpos=custom_init))
