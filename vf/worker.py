"""Worker process: reads one job (JSON) per line, runs the property's monitors.

Replies with a line `@@RESULT {...}`. Anything else on stdout is ignored by
the runner.
"""
import importlib
import json
import sys
import traceback

from vf import common


def main():
  prop = sys.argv[1].upper()
  mod = importlib.import_module('vf.' + prop.lower())
  extra = getattr(mod, 'EXTRA_XLA_FLAGS', '')
  if extra:
    import os
    os.environ['XLA_FLAGS'] = (
        extra + ' --xla_cpu_multi_thread_eigen=false '
        'intra_op_parallelism_threads=1')
  common.setup_env()
  if getattr(mod, 'NEEDS_JAX', True):
    common.setup_jax(getattr(mod, 'X64', True))
  origin = None
  for line in sys.stdin:
    line = line.strip()
    if not line:
      continue
    job = json.loads(line)
    mon = common.Mon(prop)
    import time
    t0 = time.time()
    try:
      mod.run(job, mon)
    except Exception:  # pylint: disable=broad-except
      # an exception escaping a probe is a harness/infrastructure event, not
      # a verdict: counted, makes floors harder to meet (-> inconclusive)
      mon.count('job_exceptions')
      mon.note_inconclusive('job %s raised: %s' % (
          job.get('kind'), traceback.format_exc()[-1500:]))
      traceback.print_exc(file=sys.stderr)
    out = mon.dump()
    if origin is None:
      try:
        origin = common.brax_origin()
      except Exception:  # pylint: disable=broad-except
        origin = 'unknown'
    out['brax_origin'] = origin
    out['wall_s'] = round(time.time() - t0, 1)
    sys.stdout.write('@@RESULT ' + json.dumps(common.jsonable(out)) + '\n')
    sys.stdout.flush()


if __name__ == '__main__':
  main()
