"""C20 — NormalTanhDistribution and the PPO inference function.

Reference model: numpy float64 normal log-density, the tanh log-derivative
written differently from the code (log 4 - 2|x| - 2 log1p(exp(-2|x|))), and
Gauss-Legendre quadrature of the squashed density.
"""
import numpy as np

PROP = 'C20'
X64 = True
RULE = ('cases: event size 1-6, 0-2 leading batch axes, loc in [-10,10], raw '
        'scale in [-20,20], pre-squash action in [-40,40] (plus a near-mode '
        'draw), min_std and var_scale in (0,2], random keys. One event = one '
        'oracle evaluated on one parameter draw (one batch element). distinct '
        '= hash of (event size, parameter vector); non-trivial = event size '
        '>= 2 or |x| > 5 (tanh saturated)')
ASSUMPTIONS = [
    'scipy-free closed forms of the normal density and of log(1-tanh^2) are '
    'the reference',
    'jax.random.normal(key, shape) is the standard normal draw used by '
    'sampling (reparameterisation: sample = loc + scale * eps)',
]
TOL = 1e-9


def config(tier):
  return {'workers': 12, 'job_timeout': 900, 'wall_cap': 3000}


def plan(tier, seed):
  n = 108 if tier == 'quick' else 2160
  per = 9 if tier == 'quick' else 90
  jobs = [{'kind': 'dist', 'seed': seed, 'first': i, 'count': per}
          for i in range(0, n, per)]
  nq = 4 if tier == 'quick' else 24
  jobs += [{'kind': 'quadrature', 'seed': seed, 'idx': i, 'count': 12}
           for i in range(nq)]
  np_ = 4 if tier == 'quick' else 40
  jobs += [{'kind': 'ppo', 'seed': seed, 'idx': i} for i in range(np_)]
  return jobs


def floors(tier):
  k = 1 if tier == 'quick' else 15
  return {'ev:log_prob_formula': 500 * k, 'ev:sample_in_range': 250 * k,
          'ev:mode_in_range': 250 * k, 'ev:scale_floor': 250 * k,
          'ev:reparameterised_sample': 250 * k, 'ev:entropy': 250 * k,
          'ev:density_integrates_to_one': 40 * (1 if tier == 'quick' else 6),
          'ev:postprocess_inverse': 250 * k,
          'ev:log_det_jacobian_large_x': 250 * k,
          'ev:float32_scale_and_log_prob': 250 * k,
          'ev:ppo_stochastic': 20 * (1 if tier == 'quick' else 10),
          'ev:ppo_deterministic': 20 * (1 if tier == 'quick' else 10)}


def log_jac(x):
  ax = np.abs(x)
  return np.log(4.0) - 2 * ax - 2 * np.log1p(np.exp(-2 * ax))


def softplus(x):
  return np.logaddexp(0.0, x)


def ref_log_prob(loc, raw, x, min_std, var_scale):
  scale = (softplus(raw) + min_std) * var_scale
  lp = (-0.5 * ((x - loc) / scale) ** 2 - 0.5 * np.log(2 * np.pi)
        - np.log(scale)) - log_jac(x)
  return lp.sum(-1), scale


def run(job, mon):
  import jax
  from jax import numpy as jp
  from brax.training import distribution

  if job['kind'] == 'dist':
    for c in range(job['first'], job['first'] + job['count']):
      rng = np.random.default_rng([job['seed'], c, 20])
      ev = 1 + c % 6
      nb = (c // 6) % 3
      bshape = tuple(int(rng.integers(1, 6)) for _ in range(nb))
      min_std = float(rng.choice([1e-3, rng.uniform(1e-3, 2.0), 2.0]))
      var_scale = float(rng.choice([1.0, rng.uniform(0.05, 2.0), 2.0]))
      d = distribution.NormalTanhDistribution(
          event_size=ev, min_std=min_std, var_scale=var_scale)
      loc = rng.uniform(-10, 10, bshape + (ev,))
      raw = rng.uniform(-20, 20, bshape + (ev,))
      # end points of the quantifier ranges
      flat = raw.reshape(-1)
      flat[: min(2, flat.size)] = [-20.0, 20.0][: min(2, flat.size)]
      params = np.concatenate([loc, raw], -1)
      x_far = rng.uniform(-40, 40, bshape + (ev,))
      xf = x_far.reshape(-1)
      xf[: min(2, xf.size)] = [-40.0, 40.0][: min(2, xf.size)]
      nelem = int(np.prod(bshape)) if bshape else 1
      jparams = jp.array(params)
      wit = lambda **kw: dict(event_size=ev, batch_shape=bshape,
                              min_std=min_std, var_scale=var_scale,
                              params=params, **kw)
      mon.check('param_size', d.param_size == 2 * ev, wit)
      for i in range(nelem):
        mon.distinct(hash((ev, params.reshape(nelem, -1)[i].tobytes())),
                     ev >= 2 or bool(np.abs(x_far.reshape(nelem, -1)[i]).max()
                                     > 5))
      if c == job['first']:
        mon.sample(wit(x=x_far))

      ref_scale = (softplus(raw) + min_std) * var_scale
      # near-mode and far pre-squash actions
      x_near = loc + ref_scale * rng.normal(size=loc.shape)
      for tag, x in (('far', x_far), ('near', x_near)):
        lp = np.asarray(d.log_prob(jparams, jp.array(x)))
        ref, _ = ref_log_prob(loc, raw, x, min_std, var_scale)
        ok = (lp.shape == bshape and np.isfinite(lp).all()
              and (np.abs(lp - ref) <= TOL * (1 + np.abs(ref))).all())
        mon.err('log_prob_formula',
                np.abs(lp - ref).max() / (1 + np.abs(ref).max())
                if lp.shape == bshape else np.inf)
        mon.count('ev:log_prob_formula', nelem - 1)
        mon.check('log_prob_formula', ok,
                  lambda: wit(x=x, log_prob=lp, ref=ref, tag=tag))
      # scale never below min_std * var_scale
      sc = np.asarray(d.create_dist(jparams).scale)
      mon.count('ev:scale_floor', nelem - 1)
      mon.check('scale_floor',
                (sc >= min_std * var_scale * (1 - 1e-12)).all()
                and (np.abs(sc - ref_scale) <= TOL * (1 + ref_scale)).all(),
                lambda: wit(scale=sc, ref=ref_scale))
      # log|dtanh/dx| finite and accurate for large |x|
      big = rng.uniform(-40, 40, 64)
      big[:6] = [-40, 40, -20, 20, 0, 1e-9]
      lj = np.asarray(distribution.TanhBijector().forward_log_det_jacobian(
          jp.array(big)))
      mon.count('ev:log_det_jacobian_large_x', nelem - 1)
      mon.err('log_det_jacobian_large_x',
              (np.abs(lj - log_jac(big)) / (1 + np.abs(log_jac(big)))).max())
      mon.check('log_det_jacobian_large_x',
                np.isfinite(lj).all() and
                (np.abs(lj - log_jac(big)) <= TOL * (1 + np.abs(log_jac(big)))
                 ).all(), lambda: wit(x=big, got=lj, ref=log_jac(big)))
      # sampling
      key = jax.random.PRNGKey(int(rng.integers(0, 2**31 - 1)))
      s1 = np.asarray(d.sample(jparams, key))
      s2 = np.asarray(d.sample(jparams, key))
      eps = np.asarray(jax.random.normal(key, shape=loc.shape))
      rawa = np.asarray(d.sample_no_postprocessing(jparams, key))
      mon.count('ev:sample_in_range', nelem - 1)
      mon.check('sample_in_range',
                s1.shape == loc.shape and (np.abs(s1) <= 1).all()
                and np.isfinite(s1).all(), lambda: wit(sample=s1))
      ref_raw = loc + ref_scale * eps
      mon.count('ev:reparameterised_sample', nelem - 1)
      mon.err('reparameterised_sample', np.abs(rawa - ref_raw).max())
      mon.check('reparameterised_sample',
                (s1 == s2).all()
                and (np.abs(rawa - ref_raw) <= 1e-9 * (1 + np.abs(ref_raw))
                     ).all()
                and (np.abs(s1 - np.tanh(ref_raw)) <= 1e-12).all(),
                lambda: wit(sample=s1, again=s2, raw=rawa, ref_raw=ref_raw))
      # d sample / d loc = 1, d sample / d raw_scale = eps * sigmoid(raw)*vs
      if c % 3 == 0:
        f = lambda p: jp.sum(d.sample_no_postprocessing(p, key))
        g = np.asarray(jax.grad(f)(jparams))
        gl, gs = g[..., :ev], g[..., ev:]
        sig = 1 / (1 + np.exp(-raw))
        mon.check('reparameterised_gradient',
                  (np.abs(gl - 1) <= 1e-12).all() and
                  (np.abs(gs - eps * sig * var_scale) <= 1e-9 * (
                      1 + np.abs(eps))).all(),
                  lambda: wit(grad=g))
      md = np.asarray(d.mode(jparams))
      mon.count('ev:mode_in_range', nelem - 1)
      mon.check('mode_in_range',
                (np.abs(md) <= 1).all()
                and (np.abs(md - np.tanh(loc)) <= 1e-12).all(),
                lambda: wit(mode=md))
      ent = np.asarray(d.entropy(jparams, key))
      ref_ent = (0.5 + 0.5 * np.log(2 * np.pi) + np.log(ref_scale)
                 + log_jac(ref_raw)).sum(-1)
      mon.count('ev:entropy', nelem - 1)
      mon.err('entropy', (np.abs(ent - ref_ent) / (1 + np.abs(ref_ent))).max())
      mon.check('entropy',
                ent.shape == bshape and
                (np.abs(ent - ref_ent) <= TOL * (1 + np.abs(ref_ent))).all(),
                lambda: wit(entropy=ent, ref=ref_ent))
      # float32, as shipped without x64: the scale (and its floor) must
      # survive small min_std and very negative raw scale parameters, and the
      # log-prob must stay finite. (The float32 log-prob *value* is not
      # compared: x/scale - loc/scale cancels catastrophically for scales of
      # 1e-7, 7% off on the unchanged tree, which the property does not rule
      # out.)
      ms32 = float(rng.choice([1e-6, 1e-5, 1e-3]))
      with jax.enable_x64(False):
        d32 = distribution.NormalTanhDistribution(
            event_size=ev, min_std=ms32, var_scale=var_scale)
        p32 = jp.asarray(params, dtype=jp.float32)
        sc32 = np.asarray(d32.create_dist(p32).scale, dtype=np.float64)
        xn32 = jp.asarray(loc + (softplus(raw) + ms32) * var_scale
                          * rng.normal(size=loc.shape), dtype=jp.float32)
        lp32 = np.asarray(d32.log_prob(p32, xn32), dtype=np.float64)
      ref_sc32 = (softplus(np.asarray(p32, np.float64)[..., ev:]) + ms32
                  ) * var_scale
      ref_lp32, _ = ref_log_prob(np.asarray(p32, np.float64)[..., :ev],
                                 np.asarray(p32, np.float64)[..., ev:],
                                 np.asarray(xn32, np.float64), ms32, var_scale)
      e32 = float((np.abs(sc32 - ref_sc32) / ref_sc32).max())
      mon.err('float32_scale_rel', e32)
      mon.count('ev:float32_scale_and_log_prob', nelem - 1)
      mon.check('float32_scale_and_log_prob',
                e32 <= 1e-4 and (sc32 >= ms32 * var_scale * (1 - 1e-5)).all()
                and np.isfinite(lp32).all(),
                lambda: wit(min_std32=ms32, scale32=sc32, ref_scale=ref_sc32,
                            log_prob32=lp32, ref_log_prob=ref_lp32))
      y = rng.uniform(-0.999, 0.999, loc.shape)
      back = np.asarray(d.postprocess(d.inverse_postprocess(jp.array(y))))
      fwd = np.asarray(d.inverse_postprocess(d.postprocess(jp.array(
          x_near.clip(-5, 5)))))
      mon.count('ev:postprocess_inverse', nelem - 1)
      mon.check('postprocess_inverse',
                (np.abs(back - y) <= 1e-12).all()
                and (np.abs(fwd - x_near.clip(-5, 5)) <= 1e-6).all(),
                lambda: wit(y=y, back=back))
    return

  if job['kind'] == 'quadrature':
    from numpy.polynomial.legendre import leggauss
    xs, ws = leggauss(600)
    rng = np.random.default_rng([job['seed'], job['idx'], 2020])
    for c in range(job['count']):
      min_std = float(rng.choice([1e-3, 0.1, 0.5]))
      var_scale = float(rng.choice([1.0, 0.5, 2.0]))
      d1 = distribution.NormalTanhDistribution(
          event_size=1, min_std=min_std, var_scale=var_scale)
      loc = rng.uniform(-1.5, 1.5)
      raw = rng.uniform(-1, 1.5)
      scale = (softplus(raw) + min_std) * var_scale
      # density of y = tanh(x) integrated over y in (-1, 1); substitute
      # y = tanh(x), dy = (1 - tanh^2 x) dx, over a +-12 sigma window in x
      a, b = loc - 12 * scale, loc + 12 * scale
      xx = 0.5 * (b - a) * xs + 0.5 * (a + b)
      lp = np.asarray(jax.vmap(
          lambda x: d1.log_prob(jp.array([loc, raw]), x[None]))(jp.array(xx)))
      # true dy/dx = sech^2 x, in a form that stays accurate for large |x|
      # (1 - tanh(x)**2 loses all digits beyond |x| ~ 10)
      ex = np.exp(-2 * np.abs(xx))
      jac = 4 * ex / (1 + ex) ** 2
      integral = float((0.5 * (b - a) * ws * np.exp(lp) * jac).sum())
      mon.err('density_integrates_to_one', abs(integral - 1))
      mon.distinct(hash((loc, raw, min_std, var_scale)), True)
      mon.check('density_integrates_to_one', abs(integral - 1) <= 1e-6,
                dict(loc=loc, raw=raw, min_std=min_std, var_scale=var_scale,
                     integral=integral))
    return

  if job['kind'] == 'ppo':
    from brax.training.agents.ppo import networks as ppo_networks
    from brax.training import networks
    from brax.training.acme import running_statistics as rs
    rng = np.random.default_rng([job['seed'], job['idx'], 2021])
    for c in range(6):
      obs_size = int(rng.integers(1, 9))
      act = int(rng.integers(1, 7))
      hidden = tuple(int(rng.integers(2, 9))
                     for _ in range(int(rng.integers(1, 3))))
      net = ppo_networks.make_ppo_networks(
          obs_size, act, preprocess_observations_fn=rs.normalize,
          policy_hidden_layer_sizes=hidden, value_hidden_layer_sizes=(4,))
      k0 = jax.random.PRNGKey(int(rng.integers(0, 2**31 - 1)))
      pparams = net.policy_network.init(k0)
      # normaliser statistics from real updates
      st = rs.init_state(jp.zeros((obs_size,)))
      data = rng.normal(rng.uniform(-3, 3, obs_size),
                        rng.uniform(0.1, 4, obs_size), (50, obs_size))
      st = rs.update(st, jp.array(data))
      nbatch = int(rng.integers(1, 6))
      obs = rng.normal(0, 3, (nbatch, obs_size))
      key = jax.random.PRNGKey(int(rng.integers(0, 2**31 - 1)))
      make_policy = ppo_networks.make_inference_fn(net)
      # the monitor's own logits: normalise in numpy, identity preprocessor
      mean, std = data.mean(0), data.std(0)
      nobs = (obs - mean) / std
      plain = networks.make_policy_network(
          2 * act, obs_size, hidden_layer_sizes=hidden,
          activation=__import__('flax').linen.swish)
      logits = np.asarray(plain.apply(None, pparams, jp.array(nobs)))
      loc, raw = logits[..., :act], logits[..., act:]
      scale = (softplus(raw) + 0.001) * 1.0
      eps = np.asarray(jax.random.normal(key, shape=loc.shape))
      wit = dict(obs_size=obs_size, action_size=act, hidden=hidden,
                 nbatch=nbatch, obs=obs)
      mon.distinct(hash((obs_size, act, hidden, obs.tobytes())), True)
      a, extra = make_policy((st, pparams), deterministic=False)(
          jp.array(obs), key)
      a = np.asarray(a)
      ra = np.asarray(extra['raw_action'])
      lp = np.asarray(extra['log_prob'])
      ref_raw = loc + scale * eps
      ref_lp, _ = ref_log_prob(loc, raw, ref_raw, 0.001, 1.0)
      e = max(np.abs(ra - ref_raw).max(), np.abs(a - np.tanh(ref_raw)).max(),
              (np.abs(lp - ref_lp) / (1 + np.abs(ref_lp))).max())
      mon.err('ppo_stochastic', e)
      mon.check('ppo_stochastic',
                e <= 1e-8 and (np.abs(a) <= 1).all()
                and set(extra) == {'log_prob', 'raw_action'},
                lambda: dict(wit, action=a, raw_action=ra, log_prob=lp,
                             ref_raw=ref_raw, ref_lp=ref_lp))
      a2, extra2 = make_policy((st, pparams), deterministic=True)(
          jp.array(obs), key)
      e = np.abs(np.asarray(a2) - np.tanh(loc)).max()
      mon.err('ppo_deterministic', e)
      mon.check('ppo_deterministic', e <= 1e-8 and extra2 == {},
                lambda: dict(wit, action=np.asarray(a2), ref=np.tanh(loc)))
      if c == 0:
        mon.sample(dict(wit, action=a, log_prob=lp))
