"""C11 — actuator joint forces vs MuJoCo's qfrc_actuator, plus monotonicity."""
import numpy as np

PROP = 'C11'
X64 = True
RULE = ('models: generator forests of 1-6 links with 0-10 motor / position / '
        'velocity actuators (several per joint, signed gear, optional '
        'ctrlrange / forcerange) on hinge and slide joints at any stack '
        'position; 40 random (q, qd, ctrl in [-3,3]) per model incl. controls '
        'exactly on range bounds, plus 3 single-control sweeps of 21 points. '
        'One event = one (model, state) force vector compared, or one sweep. '
        'distinct = (topology, actuator kinds/joints); non-trivial = two '
        'actuators share a joint, or a control or force was clipped')
ASSUMPTIONS = [
    'MuJoCo 3.13 mj_forward qfrc_actuator for the same compiled model is the '
    'reference',
]
TOL = 1e-9


def config(tier):
  return {'workers': 14, 'job_timeout': 900, 'wall_cap': 3000}


def plan(tier, seed):
  n = 84 if tier == 'quick' else 2016
  per = 6 if tier == 'quick' else 36
  return [{'kind': 'act', 'seed': seed, 'first': i, 'count': per}
          for i in range(0, n, per)]


def floors(tier):
  k = 1 if tier == 'quick' else 20
  return {'ev:actuator_force_equals_reference': 2000 * k,
          'ev:zero_on_unactuated_dofs': 1500 * k,
          'ev:monotone_in_control': 120 * k,
          'ev:constant_outside_ctrlrange': 40 * k,
          'ev:force_saturates': 20 * k,
          'states_with_clipped_control': 300 * k,
          'states_with_clipped_force': 100 * k,
          'models_with_shared_joint': 15 * k, 'models_without_actuators': 2,
          'actuators_on_slide': 30 * k, 'actuators_on_stacked_joint': 30 * k}


def run(job, mon):
  import jax
  from jax import numpy as jp
  import mujoco
  from brax import actuator
  from brax.io import mjcf
  from vf import gen

  for c in range(job['first'], job['first'] + job['count']):
    rng = np.random.default_rng([job['seed'], c, 11])
    force_zero = c % 12 == 0
    spec = gen.gen_model(rng, actuators=not force_zero)
    xml = gen.to_xml(spec)
    sys_ = mjcf.loads(xml)
    mj = sys_.mj_model
    d = mujoco.MjData(mj)
    nu, nv = mj.nu, mj.nv
    f = jax.jit(jax.vmap(lambda a, q, qd: actuator.to_tau(sys_, a, q, qd)))
    ns = 40
    qs = np.zeros((ns, mj.nq))
    qds = np.zeros((ns, nv))
    ctrls = rng.uniform(-3, 3, (ns, nu))
    for s in range(ns):
      qs[s], qds[s] = gen.rand_state(rng, mj)
    # controls exactly on the range bounds
    for a in range(nu):
      if mj.actuator_ctrllimited[a]:
        ctrls[0, a] = mj.actuator_ctrlrange[a, 0]
        ctrls[1, a] = mj.actuator_ctrlrange[a, 1]
    taus = np.asarray(f(jp.array(ctrls), jp.array(qs), jp.array(qds)))
    joints = [a['joint'] for a in spec['acts']]
    shared = len(set(joints)) < len(joints)
    if nu == 0:
      mon.count('models_without_actuators')
    if shared:
      mon.count('models_with_shared_joint')
    jinfo = {j['name']: (j['type'], len(b['joints']))
             for b in spec['bodies'] for j in b['joints']}
    for jn in joints:
      if jinfo[jn][0] == 'slide':
        mon.count('actuators_on_slide')
      if jinfo[jn][1] > 1:
        mon.count('actuators_on_stacked_joint')
    actuated = np.zeros(nv, bool)
    for a in range(nu):
      actuated[mj.jnt_dofadr[mj.actuator_trnid[a, 0]]] = True
    any_clip = False
    for s in range(ns):
      d.qpos[:], d.qvel[:], d.ctrl[:] = qs[s], qds[s], ctrls[s]
      mujoco.mj_forward(mj, d)
      ref = d.qfrc_actuator.copy()
      e = np.abs(taus[s] - ref).max() / (1 + np.abs(ref).max()) if nv else 0.0
      mon.err('actuator_force', e)
      wit = lambda: dict(model=c, seed=job['seed'], xml=xml, q=qs[s],
                         qd=qds[s], ctrl=ctrls[s], tau=taus[s], ref=ref)
      mon.check('actuator_force_equals_reference',
                taus[s].shape == (nv,) and e <= TOL, wit)
      mon.check('zero_on_unactuated_dofs',
                (taus[s][~actuated] == 0.0).all(), wit)
      if nu:
        cl = mj.actuator_ctrllimited.astype(bool)
        if ((ctrls[s] < mj.actuator_ctrlrange[:, 0]) & cl).any() or (
            (ctrls[s] > mj.actuator_ctrlrange[:, 1]) & cl).any():
          mon.count('states_with_clipped_control')
          any_clip = True
        fl = mj.actuator_forcelimited.astype(bool)
        fr = mj.actuator_forcerange
        if (fl & ((d.actuator_force <= fr[:, 0] + 1e-12)
                  | (d.actuator_force >= fr[:, 1] - 1e-12))).any():
          mon.count('states_with_clipped_force')
          any_clip = True
    mon.distinct(gen.topo_key(spec) + '|' + ','.join(
        sorted(a['kind'][0] + a['joint'] for a in spec['acts'])),
                 shared or any_clip)
    if c == job['first']:
      mon.sample(dict(model=c, actuators=spec['acts'][:4], ctrl=ctrls[2],
                      tau=taus[2]))

    # sweeps of one control with the others fixed
    for _ in range(3 if nu else 0):
      a = int(rng.integers(0, nu))
      q, qd = gen.rand_state(rng, mj)
      base = rng.uniform(-3, 3, nu)
      lo, hi = (mj.actuator_ctrlrange[a] if mj.actuator_ctrllimited[a]
                else (-3.0, 3.0))
      pts = np.unique(np.concatenate([np.linspace(-3, 3, 19), [lo, hi]]))
      cs = np.tile(base, (len(pts), 1))
      cs[:, a] = pts
      tt = np.asarray(f(jp.array(cs), jp.tile(jp.array(q), (len(pts), 1)),
                        jp.tile(jp.array(qd), (len(pts), 1))))
      dof = mj.jnt_dofadr[mj.actuator_trnid[a, 0]]
      sign = np.sign(mj.actuator_gainprm[a, 0] * mj.actuator_gear[a, 0])
      diffs = np.diff(tt[:, dof]) * sign
      others = np.delete(tt, dof, axis=1)
      wit = lambda: dict(model=c, seed=job['seed'], xml=xml, actuator=a,
                         points=pts, force=tt[:, dof], sign=sign)
      mon.check('monotone_in_control',
                (diffs >= -1e-12 * (1 + np.abs(tt[:, dof]).max())).all()
                and (others == others[0]).all(), wit)
      if mj.actuator_ctrllimited[a]:
        below = tt[pts <= lo, dof]
        above = tt[pts >= hi, dof]
        mon.check('constant_outside_ctrlrange',
                  (below == below[0]).all() and (above == above[0]).all(), wit)
      if mj.actuator_forcelimited[a] and list(joints).count(
          joints[a]) == 1:
        fr = mj.actuator_forcerange[a] * mj.actuator_gear[a, 0]
        lo_f, hi_f = min(fr), max(fr)
        mon.check('force_saturates',
                  (tt[:, dof] >= lo_f - 1e-9).all()
                  and (tt[:, dof] <= hi_f + 1e-9).all(), wit)
