"""C07 — batching / compilation transparent; batch members independent.

Relational monitors over executions of the same real code: vmapped vs solo,
jit vs eager, and the same batch with all *other* members changed (bitwise).
"""
import functools

import numpy as np

PROP = 'C07'
X64 = True
RULE = ('pipelines: generator models (1-4 links) with and without contacts '
        '(plane just below the bodies), batches of 2-8 random states/actions, '
        'f = init + 2 steps, three pipelines; wrapped environments: the '
        'scripted environment with a different termination schedule per '
        'member, inverted_pendulum and reacher on the three backends, 10-40 '
        'wrapped steps with per-member actions; domain randomisation over '
        'masses, frictions and gears. One event = one member compared (solo, '
        'eager or independence). distinct = (workload, model/env, pipeline); '
        'non-trivial = the batch had an active contact/limit, or an episode '
        'end occurred inside the rollout')
ASSUMPTIONS = [
    'independence is demanded bitwise (same compiled function, same member '
    'inputs); batch-vs-solo and eager-vs-jit to 1e-9 relative; where the '
    "generalized pipeline's projected-gradient solver is active the step is "
    'continuous only up to the solver stopping tolerance: batch-vs-solo and '
    'eager-vs-jit are then recorded but not asserted (counted); independence '
    'stays bitwise for those members too',
]


def config(tier):
  return {'workers': 14, 'job_timeout': 2400, 'wall_cap': 9000}


def plan(tier, seed):
  q = tier == 'quick'
  jobs = []
  for i in range(6 if q else 60):
    # eager evaluation compiles every primitive separately (minutes for a
    # multi-link model), so it is run on small models, one pipeline per job
    jobs.append({'kind': 'pipeline', 'seed': seed, 'idx': i,
                 'eager': i % 2 == 1})
  for i in range(4 if q else 30):
    jobs.append({'kind': 'scripted', 'seed': seed, 'idx': i})
  envs_ = [('inverted_pendulum', b) for b in ('generalized', 'spring',
                                              'positional')]
  envs_ += [('reacher', b) for b in ('generalized', 'spring', 'positional')]
  reps = 1 if q else 4
  for r in range(reps):
    for name, backend in envs_:
      jobs.append({'kind': 'env', 'seed': seed, 'idx': r, 'env': name,
                   'backend': backend})
    for backend in ('generalized', 'positional') if q else (
        'generalized', 'spring', 'positional'):
      jobs.append({'kind': 'domain_rand', 'seed': seed, 'idx': r,
                   'env': 'inverted_pendulum' if r % 2 == 0 else 'reacher',
                   'backend': backend})
  jobs.sort(key=lambda j: {'env': 0, 'domain_rand': 1, 'pipeline': 2}.get(
      j['kind'], 3))
  return jobs


def floors(tier):
  k = 1 if tier == 'quick' else 6
  f = {}
  for p in ('generalized', 'spring', 'positional'):
    # generalized members with an active solver row are recorded, not asserted
    f['ev:batch_equals_solo:' + p] = (4 if p == 'generalized' else 8) * k
    f['ev:members_independent:' + p] = 8 * k
  f['ev:eager_equals_jit'] = 2 * (1 if tier == 'quick' else 6)
  f['ev:wrapped_batch_equals_solo:scripted'] = 6 * k
  f['ev:wrapped_members_independent:scripted'] = 6 * k
  f['ev:wrapped_eager_equals_jit'] = 4 * (1 if tier == 'quick' else 5)
  f['ev:wrapped_step_repeatable_on_same_state'] = 4 * (
      1 if tier == 'quick' else 5)
  f['ev:wrapped_batch_equals_solo:env'] = 12 * (1 if tier == 'quick' else 4)
  f['ev:wrapped_members_independent:env'] = 10 * (
      1 if tier == 'quick' else 4)
  f['ev:domain_randomised_member_equals_solo'] = 4 * (
      1 if tier == 'quick' else 6)
  f['members_with_active_contact_or_limit'] = 6 * k
  f['rollouts_with_episode_end'] = 5
  return f


def flat(tree):
  import jax
  return np.concatenate([np.ravel(np.asarray(a, dtype=np.float64))
                         for a in jax.tree_util.tree_leaves(tree)])


def run(job, mon):
  import jax
  from jax import numpy as jp
  from vf import common, gen, phys
  common.stub_v1()
  kind, idx = job['kind'], job['idx']
  rng = np.random.default_rng(
      [job['seed'], idx, {'pipeline': 7, 'scripted': 77, 'env': 777,
                          'domain_rand': 7777}[kind]]
      + [ord(ch) for ch in job.get('env', '') + job.get('backend', '')])

  if kind == 'pipeline':
    contacts = idx % 2 == 0
    # eager-vs-jit is only claimed where the step is continuous: those jobs
    # use models without limits or contacts so no solver row can be active
    spec = gen.gen_model(rng, n_links=int(rng.integers(1, 3)) if job['eager']
                         else int(rng.integers(2, 5)),
                         limits=not job['eager'],
                         collide=contacts, plane=contacts,
                         geom_types=('sphere', 'capsule') if contacts else (
                             'sphere', 'capsule', 'box'))
    spec['plane_z'] = -0.35
    xml = gen.to_xml(spec)
    sys_ = phys.load(xml)
    mj = sys_.mj_model
    nb = int(rng.integers(2, 9))
    qs, qds = zip(*[gen.rand_state(rng, mj, qscale=0.8) for _ in range(nb)])
    qs, qds = np.array(qs), np.array(qds)
    acts = rng.uniform(-1, 1, (nb, mj.nu))
    for pname in phys.PIPELINES:
      p = phys.pipeline(pname)

      def f(q, qd, a, p=p, pname=pname):
        st = p.init(sys_, q, qd)
        active = jp.zeros(())
        for _ in range(2):
          if pname == 'generalized':
            active = active + jp.abs(st.con_jac).sum()
          st = p.step(sys_, st, a)
          if pname == 'generalized':
            active = active + jp.abs(st.qf_constraint).sum()
        return (st.q, st.qd, st.x.pos, st.x.rot, st.xd.vel, st.xd.ang), active
      fb, fs = jax.jit(jax.vmap(f)), jax.jit(f)
      rb, actb = fb(jp.array(qs), jp.array(qds), jp.array(acts))
      rb = [np.asarray(a) for a in rb]
      actb = np.asarray(actb)
      # contact activity from the reported poses
      if contacts:
        from brax import contact
        dmin = np.asarray(jax.jit(jax.vmap(lambda pos, rot: contact.get(
            sys_, sys_.link.transform.replace(pos=pos, rot=rot)).dist.min()))(
                jp.array(rb[2]), jp.array(rb[3])))
      else:
        dmin = np.ones(nb)
      wit = lambda **kw: dict(case=idx, seed=job['seed'], pipeline=pname,
                              xml=xml, batch=nb, **kw)
      any_active = False
      for i in range(nb):
        if not all(np.isfinite(a[i]).all() for a in rb):
          mon.count('members_diverged:' + pname)
          continue
        rs, acts_ = fs(jp.array(qs[i]), jp.array(qds[i]), jp.array(acts[i]))
        a, b = flat([x[i] for x in rb]), flat(rs)
        e = float(np.abs(a - b).max() / (1 + np.abs(b).max()))
        solver = pname == 'generalized' and (actb[i] > 0 or acts_ > 0)
        if solver or dmin[i] < 0:
          mon.count('members_with_active_contact_or_limit')
          any_active = True
        if solver:
          # the projected-gradient solver's stopping test / line search is a
          # discontinuity: round-off differences between the batched and the
          # solo compilation can change its iteration count and move the
          # result by percents (4e-2 observed). Recorded, not asserted; the
          # bitwise independence check below still covers these members.
          mon.count('batch_vs_solo_skipped_solver_active')
          mon.err('batch_equals_solo:' + pname + ':solver_active', e)
          continue
        mon.err('batch_equals_solo:' + pname, e)
        mon.check('batch_equals_solo:' + pname, e <= 1e-9,
                  lambda: wit(member=i, err=e, q=qs[i], qd=qds[i],
                              ctrl=acts[i]))
      # independence: change every member except k
      for k in (0, nb - 1):
        qs2, qds2, acts2 = qs.copy(), qds.copy(), acts.copy()
        for i in range(nb):
          if i != k:
            qs2[i], qds2[i] = gen.rand_state(rng, mj, qscale=0.8)
            acts2[i] = rng.uniform(-1, 1, mj.nu)
        rb2, _ = fb(jp.array(qs2), jp.array(qds2), jp.array(acts2))
        a = flat([np.asarray(x)[k] for x in rb2])
        b = flat([x[k] for x in rb])
        same = bool((a == b).all() or (np.isnan(a) == np.isnan(b)).all()
                    and np.array_equal(a[~np.isnan(a)], b[~np.isnan(b)]))
        mon.check('members_independent:' + pname, same,
                  lambda: wit(member=k, maxdiff=float(np.nanmax(np.abs(
                      a - b)))))
      mon.distinct('pipe|%d|%s' % (idx, pname), any_active)
      if job['eager'] and phys.PIPELINES[(idx // 2) % 3] == pname:
        re, acte = f(jp.array(qs[0]), jp.array(qds[0]), jp.array(acts[0]))
        rs, _ = fs(jp.array(qs[0]), jp.array(qds[0]), jp.array(acts[0]))
        a, b = flat(re), flat(rs)
        if np.isfinite(a).all() and np.isfinite(b).all():
          e = float(np.abs(a - b).max() / (1 + np.abs(b).max()))
          if pname == 'generalized' and acte > 0:
            # not continuous in its inputs here (solver stopping test)
            mon.count('eager_skipped_solver_active')
            mon.err('eager_equals_jit:solver_active', e)
          else:
            mon.err('eager_equals_jit', e)
            mon.check('eager_equals_jit', e <= 1e-9,
                      lambda: wit(err=e, q=qs[0], qd=qds[0], ctrl=acts[0]))
    if idx == 0:
      mon.sample(dict(workload='pipeline', case=idx, batch=nb,
                      contacts=contacts,
                      signatures=sorted(gen.stack_sig(b)
                                        for b in spec['bodies'])))
    return

  from brax.envs.wrappers import training

  def rollout(env, keys, actions):
    s = jax.jit(env.reset)(keys)
    step = jax.jit(env.step)
    out = []
    for a in actions:
      s = step(s, a)
      out.append(dict(obs=np.asarray(s.obs), reward=np.asarray(s.reward),
                      done=np.asarray(s.done),
                      trunc=np.asarray(s.info['truncation']),
                      steps=np.asarray(s.info['steps']),
                      q=np.asarray(s.pipeline_state.q)))
    return out

  def compare_rollouts(tag, make_env, keys, acts, nb, tol, wit,
                       solo_env_for=None):
    env = make_env()
    rb = rollout(env, keys, acts)
    ends = int(sum(r['done'].sum() for r in rb))
    if ends:
      mon.count('rollouts_with_episode_end')
    for i in range(nb):
      senv = solo_env_for(i) if solo_env_for else env
      rs = rollout(senv, keys[i:i + 1], [a[i:i + 1] for a in acts])
      worst = 0.0
      for t in range(len(acts)):
        for f in rb[0]:
          x, y = rb[t][f][i], rs[t][f][0]
          if not (np.isfinite(x).all() and np.isfinite(y).all()):
            worst = max(worst, 0.0 if np.array_equal(
                np.isnan(x), np.isnan(y)) else np.inf)
            continue
          worst = max(worst, float(np.abs(x - y).max() / (
              1 + np.abs(y).max())))
      mon.err(tag, worst)
      name = ('domain_randomised_member_equals_solo' if solo_env_for
              else 'wrapped_batch_equals_solo:' + tag)
      mon.check(name, worst <= tol,
                lambda: dict(wit(), member=i, err=worst, episode_ends=ends))
    return env, rb, ends

  def independence(tag, env, rb, keys, acts, nb, wit, other_keys):
    for k in (0, nb - 1):
      keys2 = jp.array(np.where((np.arange(nb) == k)[:, None],
                                np.asarray(keys), np.asarray(other_keys)))
      acts2 = [jp.array(np.where((np.arange(nb) == k)[:, None],
                                 np.asarray(a), -np.asarray(a) * 0.7))
               for a in acts]
      rb2 = rollout(env, keys2, acts2)
      same = all(np.array_equal(rb[t][f][k], rb2[t][f][k], equal_nan=True)
                 for t in range(len(acts)) for f in rb[0])
      mon.check('wrapped_members_independent:' + tag, same,
                lambda: dict(wit(), member=k))

  if kind == 'scripted':
    from vf.scripted_env import Scripted
    length, krep = int(rng.integers(2, 9)), int(rng.integers(1, 4))
    nb = int(rng.integers(2, 9))
    nsteps = int(rng.integers(10, 41))
    masks = rng.integers(0, 2**32, nb, dtype=np.uint64).astype(np.uint32)
    masks &= rng.integers(0, 2**32, nb, dtype=np.uint64).astype(np.uint32)
    keys = jp.array(np.stack([np.arange(nb, dtype=np.uint32) + 5, masks], 1))
    other = jp.array(np.stack([
        np.arange(nb, dtype=np.uint32) + 50,
        rng.integers(0, 2**32, nb, dtype=np.uint64).astype(np.uint32)], 1))
    acts = [jp.array(rng.uniform(-1, 1, (nb, 1))) for _ in range(nsteps)]
    wit = lambda: dict(workload='scripted', case=idx, seed=job['seed'],
                       L=length, k=krep, batch=nb, masks=masks)
    mk = lambda: training.wrap(Scripted(32), episode_length=length,
                               action_repeat=krep)
    env, rb, ends = compare_rollouts('scripted', mk, keys, acts, nb, 0.0, wit)
    independence('scripted', env, rb, keys, acts, nb, wit, other)
    # eager evaluation of the wrapped environment: (a) stepping the same
    # state object twice gives the same result (a step must not change the
    # state it was given in a way that matters), (b) an eager rollout equals
    # the jitted one, across episode ends
    senv = mk()
    s_j = jax.jit(senv.reset)(keys)
    s_e = senv.reset(keys)
    jstep = jax.jit(senv.step)
    fields = lambda s: dict(obs=np.asarray(s.obs), reward=np.asarray(s.reward),
                            done=np.asarray(s.done),
                            trunc=np.asarray(s.info['truncation']),
                            steps=np.asarray(s.info['steps']))
    ok_twice, ok_eager = True, True
    for t in range(min(nsteps, 2 * length + 2)):
      first = fields(senv.step(s_e, acts[t]))
      second = fields(senv.step(s_e, acts[t]))  # same state object again
      ok_twice = ok_twice and all(np.array_equal(first[f], second[f])
                                  for f in first)
      s_e = senv.step(s_e, acts[t])
      s_j = jstep(s_j, acts[t])
      fe, fj = fields(s_e), fields(s_j)
      ok_eager = ok_eager and all(np.array_equal(fe[f], fj[f]) for f in fe)
    mon.check('wrapped_step_repeatable_on_same_state', ok_twice, wit)
    mon.check('wrapped_eager_equals_jit', ok_eager, wit)
    mon.distinct('scripted|%d' % idx, ends > 0)
    mon.sample(dict(workload='scripted', L=length, k=krep, batch=nb,
                    steps=nsteps, episode_ends=ends))
    return

  from brax import envs
  name, backend = job['env'], job['backend']

  if kind == 'env':
    length, krep = int(rng.integers(5, 12)), int(rng.integers(1, 3))
    nb = int(rng.integers(2, 6))
    nsteps = int(rng.integers(10, 25))
    base = envs.get_environment(name, backend=backend)
    keys = jax.random.split(jax.random.PRNGKey(int(rng.integers(1 << 30))), nb)
    other = jax.random.split(jax.random.PRNGKey(int(rng.integers(1 << 30))),
                             nb)
    acts = [jp.array(rng.uniform(-1, 1, (nb, base.action_size)))
            for _ in range(nsteps)]
    wit = lambda: dict(workload='env', env=name, backend=backend,
                       seed=job['seed'], L=length, k=krep, batch=nb,
                       steps=nsteps)
    mk = lambda: training.wrap(base, episode_length=length,
                               action_repeat=krep)
    env, rb, ends = compare_rollouts('env', mk, keys, acts, nb, 1e-8, wit)
    independence('env', env, rb, keys, acts, nb, wit, other)
    mon.distinct('env|%s|%s|%d' % (name, backend, idx), ends > 0)
    mon.sample(dict(workload='env', env=name, backend=backend, L=length,
                    k=krep, batch=nb, steps=nsteps, episode_ends=ends))
    return

  # domain randomisation
  nb = int(rng.integers(2, 5))
  nsteps = int(rng.integers(8, 16))
  base = envs.get_environment(name, backend=backend)
  sys0 = base.sys  # before wrapping: the wrapper leaks tracers into base.sys
  rkeys = jax.random.split(jax.random.PRNGKey(int(rng.integers(1 << 30))), nb)

  def rand(sys_, rng_):
    @jax.vmap
    def f(r):
      k1, k2, k3 = jax.random.split(r, 3)
      mass = sys_.link.inertia.mass * jax.random.uniform(
          k1, sys_.link.inertia.mass.shape, minval=0.5, maxval=1.5)
      gear = sys_.actuator.gear * jax.random.uniform(
          k2, sys_.actuator.gear.shape, minval=0.5, maxval=1.5)
      fric = sys_.geom_friction * jax.random.uniform(
          k3, sys_.geom_friction.shape, minval=0.5, maxval=1.5)
      return mass, gear, fric
    mass, gear, fric = f(rng_)
    sys_v = sys_.tree_replace({'link.inertia.mass': mass,
                               'actuator.gear': gear, 'geom_friction': fric})
    in_axes = jax.tree.map(lambda x: None, sys_)
    in_axes = in_axes.tree_replace({'link.inertia.mass': 0,
                                    'actuator.gear': 0, 'geom_friction': 0})
    return sys_v, in_axes
  sys_v, _ = rand(sys0, rkeys)
  keys = jax.random.split(jax.random.PRNGKey(int(rng.integers(1 << 30))), nb)
  acts = [jp.array(rng.uniform(-1, 1, (nb, base.action_size)))
          for _ in range(nsteps)]
  wit = lambda: dict(workload='domain_rand', env=name, backend=backend,
                     seed=job['seed'], batch=nb, steps=nsteps)

  def solo_env_for(i):
    solo = envs.get_environment(name, backend=backend)
    solo.sys = sys0.tree_replace({
        'link.inertia.mass': sys_v.link.inertia.mass[i],
        'actuator.gear': sys_v.actuator.gear[i],
        'geom_friction': sys_v.geom_friction[i]})
    return training.wrap(solo, episode_length=50)
  mk = lambda: training.wrap(base, episode_length=50,
                             randomization_fn=functools.partial(
                                 rand, rng_=rkeys))
  _, rb, ends = compare_rollouts('domain_rand', mk, keys, acts, nb, 1e-8, wit,
                                 solo_env_for=solo_env_for)
  distinct_members = len({float(r) for r in rb[-1]['obs'][:, 0]})
  mon.check('domain_randomised_members_differ', distinct_members == nb,
            lambda: dict(wit(), distinct=distinct_members))
  mon.distinct('dr|%s|%s|%d' % (name, backend, idx), True)
  mon.sample(dict(workload='domain_rand', env=name, backend=backend,
                  batch=nb, steps=nsteps))
