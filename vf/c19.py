"""C19 — compute_gae equals the defining sum for every trajectory batch.

Reference model: the definition written as explicit double loops in numpy
float64, plus two independent closed forms (lambda=1 Monte-Carlo return to the
episode end; lambda=0 one-step TD target).
"""
import itertools

import numpy as np

PROP = 'C19'
X64 = True
RULE = ('cases: (T, B, masks, rewards, values, bootstrap, lambda, discount); '
        'exhaustive part: all 3^T per-step mask patterns (none / termination '
        '/ truncation) for T<=4 laid out along the batch axis, for 9 '
        '(lambda, discount) end-point/interior combinations; random part: T '
        '1-12, B 1-4 with all-zero, all-terminated, all-truncated and '
        'last-step masks forced in. One event = one case compared. distinct = '
        'hash of the case; non-trivial = at least one termination or '
        'truncation and T>=2')
ASSUMPTIONS = [
    'the defining sum is: delta_t=(r_t+g(1-term_t)V_{t+1}-V_t)(1-trunc_t); '
    'vs_t-V_t=sum_k prod_{j<k} g*l*(1-term_j)(1-trunc_j) delta_k; '
    'adv_t=(r_t+g(1-term_t)vs_{t+1}-V_t)(1-trunc_t)',
]
TOL = 1e-9
EXHAUSTIVE = False


def config(tier):
  return {'workers': 12, 'job_timeout': 900, 'wall_cap': 3000}


def plan(tier, seed):
  jobs = [{'kind': 'exhaustive', 'T': t, 'seed': seed,
           'draws': 3 if tier == 'quick' else 40} for t in (1, 2, 3, 4)]
  shapes = [(t, b) for t in range(1, 13) for b in range(1, 5)]
  per = 24 if tier == 'quick' else 420
  for i in range(0, len(shapes), 6):
    jobs.append({'kind': 'random', 'shapes': shapes[i:i + 6], 'per': per,
                 'seed': seed})
  return jobs


def floors(tier):
  k = 1 if tier == 'quick' else 30
  return {'ev:gae_definition': 500 * k, 'ev:no_gradient': 50,
          'ev:truncated_step_contributes_nothing': 300 * k,
          'ev:lambda1_monte_carlo_return': 80 * k,
          'ev:lambda0_td_target': 80 * k,
          'exhaustive_mask_patterns': 3 + 9 + 27 + 81}


def gae_ref(trunc, term, r, v, boot, lam, gam):
  t_len, b = r.shape
  vnext = np.concatenate([v[1:], boot[None]], 0)
  delta = (r + gam * (1 - term) * vnext - v) * (1 - trunc)
  vs = np.zeros((t_len, b))
  for t in range(t_len):
    acc = np.zeros(b)
    w = np.ones(b)
    for k in range(t, t_len):
      acc += w * delta[k]
      w = w * gam * lam * (1 - term[k]) * (1 - trunc[k])
    vs[t] = acc + v[t]
  vsn = np.concatenate([vs[1:], boot[None]], 0)
  adv = (r + gam * (1 - term) * vsn - v) * (1 - trunc)
  return vs, adv


def mc_return(term, r, v, boot, gam):
  """lambda=1, no truncation: discounted return to the episode end."""
  t_len, b = r.shape
  out = np.zeros((t_len, b))
  for i in range(b):
    for t in range(t_len):
      g, w = 0.0, 1.0
      k = t
      while True:
        g += w * r[k, i]
        w *= gam
        if term[k, i] == 1:
          break
        if k == t_len - 1:
          g += w * boot[i]
          break
        k += 1
      out[t, i] = g
  return out


def run(job, mon):
  import jax
  from jax import numpy as jp
  from brax.training.agents.ppo import losses

  gae = jax.jit(losses.compute_gae)

  def gsum(r, v, b, trunc, term, lam, gam):
    vs, adv = losses.compute_gae(trunc, term, r, v, b, lam, gam)
    return jp.sum(vs) + jp.sum(adv) + jp.sum(vs * adv)
  ggrad = jax.jit(jax.grad(gsum, argnums=(0, 1, 2)))

  def one_case(trunc, term, r, v, boot, lam, gam, do_grad, tag):
    vs, adv = gae(jp.array(trunc), jp.array(term), jp.array(r), jp.array(v),
                  jp.array(boot), lam, gam)
    vs, adv = np.asarray(vs), np.asarray(adv)
    vs0, adv0 = gae_ref(trunc, term, r, v, boot, lam, gam)
    e = max(np.abs(vs - vs0).max(), np.abs(adv - adv0).max())
    wit = lambda: dict(tag=tag, T=r.shape[0], B=r.shape[1], lam=lam, gam=gam,
                       trunc=trunc, term=term, r=r, v=v, boot=boot, vs=vs,
                       adv=adv, vs_ref=vs0, adv_ref=adv0)
    mon.err('gae_definition', e)
    mon.check('gae_definition', e <= TOL and vs.shape == r.shape
              and adv.shape == r.shape, wit)
    key = hash((trunc.tobytes(), term.tobytes(), r.tobytes(), lam, gam))
    mon.distinct(key, bool((trunc.any() or term.any()) and r.shape[0] >= 2))
    if trunc.any():
      m = trunc == 1
      e2 = max(np.abs(adv[m]).max(), np.abs(vs[m] - v[m]).max())
      mon.check('truncated_step_contributes_nothing', e2 == 0.0, wit)
    if lam == 1.0 and not trunc.any():
      ret = mc_return(term, r, v, boot, gam)
      e3 = np.abs(vs - ret).max()
      mon.err('lambda1_monte_carlo_return', e3)
      mon.check('lambda1_monte_carlo_return', e3 <= TOL * 10, wit)
    if lam == 0.0:
      vnext = np.concatenate([v[1:], boot[None]], 0)
      td = np.where(trunc == 1, v, r + gam * (1 - term) * vnext)
      e4 = np.abs(vs - td).max()
      mon.err('lambda0_td_target', e4)
      mon.check('lambda0_td_target', e4 <= TOL, wit)
    if do_grad:
      g = ggrad(jp.array(r), jp.array(v), jp.array(boot), jp.array(trunc),
                jp.array(term), lam, gam)
      gm = max(float(jp.abs(x).max()) for x in g)
      mon.check('no_gradient', gm == 0.0, lambda: dict(wit(), gradmax=gm))
    return wit

  rng = np.random.default_rng([job['seed'], 19, job.get('T', 0)]
                              + [s for sh in job.get('shapes', []) for s in sh])
  if job['kind'] == 'exhaustive':
    t_len = job['T']
    pats = np.array(list(itertools.product((0, 1, 2), repeat=t_len))).T
    term = (pats == 1).astype(float)
    trunc = (pats == 2).astype(float)
    b = pats.shape[1]
    mon.count('exhaustive_mask_patterns', b)
    first = True
    for d in range(job['draws']):
      r, v = rng.uniform(-5, 5, (t_len, b)), rng.uniform(-5, 5, (t_len, b))
      boot = rng.uniform(-5, 5, b)
      for lam, gam in itertools.product((0.0, 1.0, None), repeat=2):
        lam = float(rng.uniform()) if lam is None else lam
        gam = float(rng.uniform()) if gam is None else gam
        w = one_case(trunc, term, r, v, boot, lam, gam, first, 'exhaustive')
        if first:
          mon.sample({k: x for k, x in w().items()
                      if k in ('T', 'B', 'lam', 'gam', 'tag')}
                     | {'term_patterns_first8': term[:, :8],
                        'trunc_patterns_first8': trunc[:, :8]})
        first = False
    return

  for (t_len, b) in job['shapes']:
    for c in range(job['per']):
      kind = rng.integers(0, 3, (t_len, b))
      mode = c % 8
      if mode == 0:
        kind[:] = 0
      elif mode == 1:
        kind[:] = 1
      elif mode == 2:
        kind[:] = 2
      elif mode == 3:  # only the last step ends
        kind[:] = 0
        kind[-1] = rng.integers(1, 3, b)
      elif mode == 4:  # sparse
        kind = np.where(rng.random((t_len, b)) < 0.2, kind, 0)
      elif mode == 5:  # no truncation (for the Monte-Carlo form)
        kind = np.where(kind == 2, 0, kind)
      term = (kind == 1).astype(float)
      trunc = (kind == 2).astype(float)
      r, v = rng.uniform(-5, 5, (t_len, b)), rng.uniform(-5, 5, (t_len, b))
      boot = rng.uniform(-5, 5, b)
      lam, gam = [float(rng.choice([0.0, 1.0, rng.uniform()]))
                  for _ in range(2)]
      if mode == 5:
        lam = 1.0
      w = one_case(trunc, term, r, v, boot, lam, gam, c < 2, 'random')
      if c == 3 and t_len == job['shapes'][0][0] and b == 1:
        mon.sample(w())
