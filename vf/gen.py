"""Random MJCF model generator ("the generator" of the property quantifiers).

A *spec* is a plain JSON-serialisable dict; `to_xml(spec)` renders it. Replay
files store specs, so a case can be rebuilt without the PRNG.
"""
import copy

import numpy as np


def rquat(rng):
  q = rng.normal(size=4)
  return q / np.linalg.norm(q)


def runit(rng):
  v = rng.normal(size=3)
  return v / np.linalg.norm(v)


def fmt(a):
  return ' '.join(repr(float(x)) for x in np.atleast_1d(np.asarray(a, float)))


def L(a):
  return [float(x) for x in np.atleast_1d(a)]


def ortho_axes(rng, n):
  """n mutually orthogonal unit axes, random handedness."""
  m = np.linalg.qr(rng.normal(size=(3, 3)))[0]
  if rng.random() < 0.5:
    m[:, 2] *= -1
  if rng.random() < 0.5:
    m = m[:, rng.permutation(3)]
  return [m[:, i] for i in range(n)]


STACK_KINDS = ('any', 'pure', 'invertible', 'hinge', 'slide')


def gen_model(rng, *, n_links=None, max_links=6, free_root=None, ortho=False,
              stack_kinds='any', max_stack=3, anchors=True, actuators=True,
              limits=True, passive=True, collide=False, plane=False,
              plane_z=0.0, single_origin=False, strength='wild',
              timestep=0.002, gravity=(0, 0, -9.81), exact_inv=True,
              geom_elasticity=False, axis_aligned=False, identity_quat=False,
              geom_types=('sphere', 'capsule', 'box'), iterations=None,
              limit_prob=0.4, stiffness=True, root_parent_only=False,
              max_geoms=2, chain=False, min_stack=1, parents=None):
  if parents is not None:
    n_links = len(parents)
  n = n_links or int(rng.integers(1, max_links + 1))
  bodies = []
  for i in range(n):
    parent = -1 if i == 0 else int(rng.integers(-1, i))
    if chain and i > 0:
      parent = i - 1  # one deep chain (depth = number of links)
    if parents is not None:
      parent = int(parents[i])
    if root_parent_only and i > 0 and parent == -1:
      parent = int(rng.integers(0, i))
    b = {'name': 'b%d' % i, 'parent': parent, 'children': []}
    is_free = (parent == -1) and (
        free_root if free_root is not None else rng.random() < 0.5)
    b['free'] = bool(is_free)
    b['pos'] = L(rng.uniform(-0.5, 0.5, 3))
    b['quat'] = L(rquat(rng)) if not (axis_aligned or identity_quat) else [
        1., 0., 0., 0.]
    joints = []
    if not is_free:
      k = 1 if single_origin else int(rng.integers(min_stack, max_stack + 1))
      if ortho:
        axes = ortho_axes(rng, k)
      elif axis_aligned:
        axes = [np.eye(3)[j] * (1 if rng.random() < .5 else -1)
                for j in rng.permutation(3)[:k]]
      else:
        axes = [runit(rng) for _ in range(k)]
      if stack_kinds == 'any':
        kinds = [str(rng.choice(['hinge', 'slide'])) for _ in range(k)]
      elif stack_kinds == 'pure':
        kinds = [str(rng.choice(['hinge', 'slide']))] * k
      elif stack_kinds == 'invertible':  # pure, or slides followed by one hinge
        if rng.random() < 0.5 or k == 1:
          kinds = [str(rng.choice(['hinge', 'slide']))] * k
        else:
          kinds = ['slide'] * (k - 1) + ['hinge']
      else:
        kinds = [stack_kinds] * k
      anchor = (rng.uniform(-0.3, 0.3, 3)
                if (anchors and not single_origin and rng.random() < 0.6)
                else np.zeros(3))
      for j in range(k):
        jt = {'name': 'j%d_%d' % (i, j), 'type': kinds[j], 'axis': L(axes[j]),
              'pos': L(anchor)}
        if limits and rng.random() < limit_prob:
          jt['range'] = [float(rng.uniform(-1.5, -0.2)),
                         float(rng.uniform(0.2, 1.5))]
          if rng.random() < 0.25:
            # a range that does not contain 0 (e.g. a slide limited to
            # [0.2, 1.0]): the default pose is outside it
            a, w = float(rng.uniform(0.1, 0.8)), float(rng.uniform(0.3, 1.0))
            jt['range'] = [a, a + w] if rng.random() < 0.5 else [-a - w, -a]
        if passive:
          if rng.random() < 0.4:
            jt['damping'] = float(rng.uniform(0.05, 2.0))
          if rng.random() < 0.3:
            jt['armature'] = float(rng.uniform(0.01, 0.5))
          if stiffness and rng.random() < 0.3:
            jt['stiffness'] = float(
                rng.uniform(0.5, 20.0 if strength == 'wild' else 5.0))
        joints.append(jt)
    b['joints'] = joints
    geoms = []
    for g in range(int(rng.integers(1, max_geoms + 1))):
      typ = str(rng.choice(list(geom_types)))
      size = {'sphere': rng.uniform(0.05, 0.2, 1),
              'capsule': rng.uniform(0.04, 0.2, 2),
              'box': rng.uniform(0.04, 0.2, 3)}[typ]
      gd = {'name': 'g%d_%d' % (i, g), 'type': typ, 'size': L(size),
            'pos': L(rng.uniform(-0.3, 0.3, 3)), 'quat': L(rquat(rng)),
            'mass': float(rng.uniform(0.2, 3.0))}
      if collide and typ != 'box':
        gd['collide'] = True
      if geom_elasticity:
        gd['elasticity'] = float(rng.uniform(0, 1))
      geoms.append(gd)
    b['geoms'] = geoms
    bodies.append(b)
    if parent >= 0:
      bodies[parent]['children'].append(i)
  acts = []
  if actuators:
    all_j = [jt['name'] for b in bodies for jt in b['joints']]
    if all_j:
      for a in range(int(rng.integers(0, min(10, 2 * len(all_j)) + 1))):
        kind = str(rng.choice(['motor', 'position', 'velocity']))
        gmax = 30.0 if strength == 'wild' else 2.0
        ad = {'name': 'a%d' % a, 'kind': kind,
              'joint': str(rng.choice(all_j)),
              'gear': float(rng.uniform(0.5, gmax)
                            * (1 if rng.random() < .8 else -1))}
        if kind == 'position':
          ad['kp'] = float(rng.uniform(1, 50 if strength == 'wild' else 5))
        if kind == 'velocity':
          ad['kv'] = float(rng.uniform(0.1, 5 if strength == 'wild' else 1))
        if rng.random() < 0.5:
          ad['ctrlrange'] = [float(rng.uniform(-2, -0.2)),
                             float(rng.uniform(0.2, 2))]
        if rng.random() < 0.4:
          ad['forcerange'] = [float(rng.uniform(-5, -0.1)),
                              float(rng.uniform(0.1, 5))]
        acts.append(ad)
  spec = {'bodies': bodies, 'acts': acts, 'timestep': float(timestep),
          'gravity': L(gravity), 'plane': bool(plane),
          'plane_z': float(plane_z), 'exact_inv': bool(exact_inv)}
  if iterations is not None:
    spec['iterations'] = int(iterations)
  return spec


def to_xml(spec, *, strip_limits=False, no_collide=False, order=None,
           strip_actuators=False):
  """Render a spec. `order(i, children)` may permute siblings (i=-1: roots)."""
  bodies = spec['bodies']
  opt = '<option timestep="%r" gravity="%s"' % (
      float(spec['timestep']), fmt(spec['gravity']))
  if 'iterations' in spec:
    opt += ' iterations="%d"' % spec['iterations']
  for k, v in spec.get('option_attrs', {}).items():
    opt += ' %s="%s"' % (k, v)
  out = ['<mujoco>', '<compiler angle="radian" autolimits="true"/>',
         opt + '/>']
  cust = []
  if spec.get('exact_inv'):
    cust.append('<numeric name="matrix_inv_iterations" data="0"/>')
  for k, v in spec.get('custom_numeric', {}).items():
    cust.append('<numeric name="%s" data="%s"/>' % (k, fmt(v)))
  el = [(g['name'], g['elasticity']) for b in bodies for g in b['geoms']
        if 'elasticity' in g]
  if spec.get('plane') and 'plane_elasticity' in spec:
    el.append(('floor', spec['plane_elasticity']))
  out.append('<custom>' + ''.join(cust))
  if el:
    out.append('<tuple name="elasticity">' + ''.join(
        '<element objtype="geom" objname="%s" prm="%r"/>' % (n, float(e))
        for n, e in el) + '</tuple>')
  out.append('</custom>')
  out.append('<worldbody>')
  if spec.get('plane'):
    cc = '' if not no_collide else ' contype="0" conaffinity="0"'
    pq = spec.get('plane_quat')
    pqs = '' if pq is None else ' quat="%s"' % fmt(pq)
    out.append('<geom name="floor" type="plane" size="10 10 0.1" '
               'pos="0 0 %r"%s%s/>' % (float(spec.get('plane_z', 0.0)), pqs,
                                      cc))

  def emit(i):
    b = bodies[i]
    out.append('<body name="%s" pos="%s" quat="%s">' % (
        b['name'], fmt(b['pos']), fmt(b['quat'])))
    if b['free']:
      out.append('<freejoint name="f_%s"/>' % b['name'])
    for jt in b['joints']:
      s = '<joint name="%s" type="%s" axis="%s" pos="%s"' % (
          jt['name'], jt['type'], fmt(jt['axis']), fmt(jt['pos']))
      if 'range' in jt and not strip_limits:
        s += ' range="%s"' % fmt(jt['range'])
      for k in ('damping', 'armature', 'stiffness'):
        if k in jt:
          s += ' %s="%r"' % (k, float(jt[k]))
      for k, v in jt.get('extra', {}).items():
        s += ' %s="%s"' % (k, v)
      out.append(s + '/>')
    for g in b['geoms']:
      s = '<geom name="%s" type="%s" size="%s" pos="%s" quat="%s"' % (
          g['name'], g['type'], fmt(g['size']), fmt(g['pos']),
          fmt(g['quat']))
      if 'mass' in g:
        s += ' mass="%r"' % float(g['mass'])
      if 'density' in g:
        s += ' density="%r"' % float(g['density'])
      if not g.get('collide') or no_collide:
        s += ' contype="0" conaffinity="0"'
      for k, v in g.get('extra', {}).items():
        s += ' %s="%s"' % (k, v)
      out.append(s + '/>')
    ch = list(b['children'])
    if order is not None:
      ch = order(i, ch)
    for c in ch:
      emit(c)
    out.append('</body>')

  roots = [i for i, b in enumerate(bodies) if b['parent'] == -1]
  if order is not None:
    roots = order(-1, roots)
  for r in roots:
    emit(r)
  out.append('</worldbody>')
  if spec['acts'] and not strip_actuators:
    out.append('<actuator>')
    for a in spec['acts']:
      s = '<%s name="%s" joint="%s" gear="%r"' % (
          a['kind'], a['name'], a['joint'], float(a['gear']))
      if 'kp' in a:
        s += ' kp="%r"' % float(a['kp'])
      if 'kv' in a:
        s += ' kv="%r"' % float(a['kv'])
      if 'ctrlrange' in a:
        s += ' ctrlrange="%s"' % fmt(a['ctrlrange'])
      if 'forcerange' in a:
        s += ' forcerange="%s"' % fmt(a['forcerange'])
      out.append(s + '/>')
    out.append('</actuator>')
  out.append('</mujoco>')
  return '\n'.join(out)


# ---------------------------------------------------------------------------
# classification (from the spec only, independent of brax)


def dfs_order(spec):
  """Body indices in document (depth-first) order = brax link order."""
  bodies = spec['bodies']
  out = []

  def rec(i):
    out.append(i)
    for c in bodies[i]['children']:
      rec(c)

  for i, b in enumerate(bodies):
    if b['parent'] == -1:
      rec(i)
  return out


def stack_sig(b):
  if b['free']:
    return 'f'
  s = ''.join('h' if j['type'] == 'hinge' else 's' for j in b['joints'])
  if b['joints'] and np.abs(b['joints'][0]['pos']).max() > 0:
    s += 'A'
  return s


def stack_orthogonal(b, tol=1e-9):
  ax = [np.asarray(j['axis'], float) for j in b['joints']]
  ax = [a / np.linalg.norm(a) for a in ax]
  for i in range(len(ax)):
    for j in range(i + 1, len(ax)):
      if abs(ax[i] @ ax[j]) > tol:
        return False
  return True


def stack_handedness(b):
  """+1 / -1 for a 3-joint stack (sign of the triple product), else 0."""
  if len(b['joints']) != 3:
    return 0
  a = [np.asarray(j['axis'], float) for j in b['joints']]
  return int(np.sign(np.cross(a[0], a[1]) @ a[2]))


def is_simple(b):
  """free, or a single joint anchored at the body origin."""
  if b['free']:
    return True
  return len(b['joints']) == 1 and np.abs(b['joints'][0]['pos']).max() == 0


def invertible_sig(b):
  """Stack classes for which C08 claims the q round trip."""
  if b['free']:
    return True
  s = stack_sig(b).rstrip('A')
  return s in ('h', 'hh', 'hhh', 's', 'ss', 'sss', 'sh', 'ssh')


def classify(spec):
  """Per body (by index): dict of class facts. Also in link (dfs) order."""
  bodies = spec['bodies']
  info = {}
  for i, b in enumerate(bodies):
    simple = is_simple(b)
    anc_simple = True
    p = b['parent']
    while p != -1:
      anc_simple = anc_simple and is_simple(bodies[p])
      p = bodies[p]['parent']
    info[i] = {
        'sig': stack_sig(b), 'ortho': stack_orthogonal(b),
        'simple': simple, 'anc_simple': anc_simple,
        'vel_claimed': simple and anc_simple,
        'invertible': invertible_sig(b),
        'handed': stack_handedness(b),
        'rotated': bool(np.abs(np.asarray(b['quat'])[1:]).max() > 1e-12),
    }
  return info


def topo_key(spec):
  """(topology, signature multiset) class of a spec."""
  order = dfs_order(spec)
  pos = {b: k for k, b in enumerate(order)}
  parents = tuple(-1 if spec['bodies'][b]['parent'] == -1
                  else pos[spec['bodies'][b]['parent']] for b in order)
  sigs = tuple(sorted(stack_sig(spec['bodies'][b]) for b in order))
  return 'p%s|%s' % (','.join(map(str, parents)), ','.join(sigs))


def n_dofs(spec):
  return sum(6 if b['free'] else len(b['joints']) for b in spec['bodies'])


# ---------------------------------------------------------------------------
# mutators


def shuffled_order(rng):
  """An `order` callback for to_xml that permutes every sibling list."""
  cache = {}

  def order(i, ch):
    if i not in cache:
      cache[i] = [ch[k] for k in rng.permutation(len(ch))]
    return cache[i]

  return order


def merge_specs(a, b):
  """Two specs in one document (names of b prefixed)."""
  a = copy.deepcopy(a)
  b = copy.deepcopy(b)
  off = len(a['bodies'])
  for bd in b['bodies']:
    bd['name'] = 'B' + bd['name']
    bd['parent'] = bd['parent'] + off if bd['parent'] != -1 else -1
    bd['children'] = [c + off for c in bd['children']]
    for j in bd['joints']:
      j['name'] = 'B' + j['name']
    for g in bd['geoms']:
      g['name'] = 'B' + g['name']
  for ac in b['acts']:
    ac['name'] = 'B' + ac['name']
    ac['joint'] = 'B' + ac['joint']
  a['bodies'] += b['bodies']
  a['acts'] += b['acts']
  return a


# ---------------------------------------------------------------------------
# states


def rand_state(rng, mj, qscale=2.0, qdscale=1.0, root_pos=1.0):
  q = np.zeros(mj.nq)
  for j in range(mj.njnt):
    a = mj.jnt_qposadr[j]
    if mj.jnt_type[j] == 0:
      q[a:a + 3] = rng.uniform(-root_pos, root_pos, 3)
      q[a + 3:a + 7] = rquat(rng)
    else:
      q[a] = rng.uniform(-qscale, qscale)
  qd = rng.uniform(-qdscale, qdscale, mj.nv)
  return q, qd


def state_inside_limits(rng, mj, frac=0.8, qscale=1.0, qdscale=1.0):
  """Random state with limited joints inside frac of their range."""
  q, qd = rand_state(rng, mj, qscale, qdscale)
  for j in range(mj.njnt):
    if mj.jnt_type[j] != 0 and mj.jnt_limited[j]:
      lo, hi = mj.jnt_range[j]
      mid, half = (lo + hi) / 2, (hi - lo) / 2 * frac
      q[mj.jnt_qposadr[j]] = rng.uniform(mid - half, mid + half)
  return q, qd


def special_state(mj, kind, rng=None):
  """Special points of the state space: 'zero' (default pose, identity root
  quaternions, zero velocity), 'zero_velocity' (random pose, qd = 0),
  'tiny' (coordinates and velocities of order 1e-6)."""
  q = np.zeros(mj.nq)
  qd = np.zeros(mj.nv)
  if kind == 'zero_velocity':
    q, _ = rand_state(rng, mj)
    return q, qd
  for j in range(mj.njnt):
    a = mj.jnt_qposadr[j]
    if mj.jnt_type[j] == 0:
      q[a + 3] = 1.0
    elif kind == 'tiny':
      q[a] = float(rng.uniform(-1, 1) * 1e-6)
  if kind == 'tiny':
    qd = rng.uniform(-1, 1, mj.nv) * 1e-6
  return q, qd


def all_forests(n):
  """All ordered forests with n nodes as preorder parent lists (Catalan(n))."""
  out = []

  def rec(parents):
    i = len(parents)
    if i == n:
      out.append(list(parents))
      return
    # the parent of node i is -1 or any node on the path from node i-1 to
    # its root (preorder numbering)
    cands = [-1]
    p = i - 1
    while p != -1:
      cands.append(p)
      p = parents[p]
    for c in cands:
      rec(parents + [c])
  rec([-1])
  return out
