"""C01 — kinematics.forward vs MuJoCo (xpos, xquat, object velocities)."""
import numpy as np

PROP = 'C01'
X64 = True
RULE = ('models: generator forests of 1-6 links (free / world-attached roots, '
        '1-3 hinge/slide joints per link with arbitrary axes, anchors, body and '
        'geom frames, limits, passive terms, actuators) + a single-joint-at-'
        'origin sub-workload, deep chains and EVERY ordered forest shape with '
        '1-6 links (196 shapes, exhaustive); 8 random states per model (q in '
        '[-2,2], unit root quaternions, qd in [-1,1]) + the default pose at '
        'rest + a random pose at rest. One event = one link compared at one '
        'state (pose; velocity where claimed). distinct = (topology, stack '
        'signature multiset); non-trivial = some non-free link has a '
        'non-identity body quaternion')
ASSUMPTIONS = [
    'MuJoCo 3.13 mj_forward xpos/xquat and mj_objectVelocity(XBODY, world '
    'orientation) on the model compiled from the same XML are the reference',
    'velocities are claimed only for links that are, and whose ancestors all '
    'are, free or single-joint-at-origin; other links are compared and a '
    'mismatch is the known finding K1',
]
TOL = 1e-9
K1 = 'fk-velocity:link-with-or-below-stacked-or-offset-joint'


def config(tier):
  return {'workers': 14, 'job_timeout': 900, 'wall_cap': 5000}


def plan(tier, seed):
  n = 70 if tier == 'quick' else 1540
  per = 5 if tier == 'quick' else 22
  jobs = [{'kind': 'fk', 'profile': 'any', 'seed': seed, 'first': i,
           'count': per} for i in range(0, n, per)]
  n2 = 42 if tier == 'quick' else 616
  per2 = 3 if tier == 'quick' else 11
  jobs += [{'kind': 'fk', 'profile': 'single_origin', 'seed': seed,
            'first': 100000 + i, 'count': per2} for i in range(0, n2, per2)]
  # every ordered forest shape with 1..6 links (196 = sum of Catalan numbers)
  from vf import gen
  shapes = [p for n in range(1, 7) for p in gen.all_forests(n)]
  per3 = 14
  jobs += [{'kind': 'fk', 'profile': 'topology', 'seed': seed,
            'first': 200000 + i, 'count': len(shapes[i:i + per3]),
            'shapes': shapes[i:i + per3]} for i in range(0, len(shapes), per3)]
  return jobs


def floors(tier):
  k = 1 if tier == 'quick' else 15
  return {'ev:link_pose': 1500 * k, 'ev:link_velocity_claimed': 600 * k,
          'ev:unit_quaternion': 1500 * k,
          'claimed_velocity_slide_on_rotated_body': 20 * k,
          'claimed_velocity_hinge': 12 * k, 'claimed_velocity_free': 40 * k,
          'claimed_velocity_child_of_moving_parent': 20 * k,
          'unclaimed_link_velocity_compared': 300 * k,
          'deep_chain_models': 8 * k, 'forest_shapes_enumerated': 196}


def run(job, mon):
  import jax
  from jax import numpy as jp
  from brax import kinematics
  from vf import gen, phys

  for c in range(job['first'], job['first'] + job['count']):
    rng = np.random.default_rng([job['seed'], c, 1])
    if job['profile'] == 'topology':
      shape = job['shapes'][c - job['first']]
      # half of the shapes with simple joints (velocities claimed on every
      # link), half with arbitrary stacks
      simple = (c + job['seed']) % 2 == 0
      spec = gen.gen_model(rng, parents=shape, single_origin=simple,
                           actuators=False)
      mon.count('forest_shapes_enumerated')
    elif job['profile'] == 'single_origin':
      spec = gen.gen_model(rng, single_origin=True,
                           stack_kinds=['any', 'slide', 'hinge'][c % 3])
    elif c % 5 == 4:
      # deep chains: every link below 4-5 moving ancestors
      spec = gen.gen_model(rng, n_links=int(rng.integers(5, 7)), chain=True)
      mon.count('deep_chain_models')
    else:
      spec = gen.gen_model(rng)
    xml = gen.to_xml(spec)
    sys_ = phys.load(xml)
    mj = sys_.mj_model
    order = gen.dfs_order(spec)
    info = gen.classify(spec)
    cls = [info[b] for b in order]
    bodies = [spec['bodies'][b] for b in order]
    fk = jax.jit(jax.vmap(lambda q, qd: kinematics.forward(sys_, q, qd)))
    ns = 10
    qs = np.zeros((ns, mj.nq))
    qds = np.zeros((ns, mj.nv))
    for s in range(ns):
      qs[s], qds[s] = gen.rand_state(rng, mj)
    # special points: default pose at rest, random pose at rest
    qs[8], qds[8] = gen.special_state(mj, 'zero')
    qs[9], qds[9] = gen.special_state(mj, 'zero_velocity', rng)
    x, xd = fk(jp.array(qs), jp.array(qds))
    xp, xr = np.asarray(x.pos), np.asarray(x.rot)
    xa, xv = np.asarray(xd.ang), np.asarray(xd.vel)
    nontrivial = any(k['rotated'] and not b['free']
                     for k, b in zip(cls, bodies))
    mon.distinct(gen.topo_key(spec), nontrivial)
    if c == job['first']:
      mon.sample(dict(model=c, profile=job['profile'],
                      link_signatures=[k['sig'] for k in cls],
                      parents=[int(p) for p in sys_.link_parents],
                      q=qs[0], qd=qds[0], x_pos=xp[0]))
    for s in range(ns):
      d = phys.mj_forward_ref(mj, qs[s], qds[s])
      ra, rv = phys.body_velocities(mj, d)
      for i, (k, b) in enumerate(zip(cls, bodies)):
        wit = lambda **kw: dict(model=c, seed=job['seed'], link=i,
                                sig=k['sig'], xml=xml, q=qs[s], qd=qds[s],
                                **kw)
        ep = np.abs(xp[s, i] - d.xpos[i + 1]).max()
        eq = phys.quat_err(xr[s, i], d.xquat[i + 1])
        mon.err('link_pose', max(ep, eq))
        mon.check('link_pose', ep <= TOL and eq <= TOL,
                  lambda: wit(pos=xp[s, i], ref_pos=d.xpos[i + 1],
                              rot=xr[s, i], ref_rot=d.xquat[i + 1]))
        mon.check('unit_quaternion',
                  abs(np.linalg.norm(xr[s, i]) - 1) <= 1e-12,
                  lambda: wit(rot=xr[s, i]))
        ea = np.abs(xa[s, i] - ra[i]).max() / (1 + np.abs(ra[i]).max())
        ev = np.abs(xv[s, i] - rv[i]).max() / (1 + np.abs(rv[i]).max())
        e = max(ea, ev)
        if k['vel_claimed']:
          mon.err('link_velocity_claimed', e)
          mon.check('link_velocity_claimed', e <= TOL,
                    lambda: wit(ang=xa[s, i], ref_ang=ra[i], vel=xv[s, i],
                                ref_vel=rv[i]))
          if s == 0:
            if b['free']:
              mon.count('claimed_velocity_free')
            elif b['joints'][0]['type'] == 'slide':
              if k['rotated'] or b['parent'] != -1:
                mon.count('claimed_velocity_slide_on_rotated_body')
            else:
              mon.count('claimed_velocity_hinge')
            if b['parent'] != -1:
              mon.count('claimed_velocity_child_of_moving_parent')
        else:
          mon.count('unclaimed_link_velocity_compared')
          if e <= TOL:
            mon.count('unclaimed_link_velocity_matches')
          else:
            mon.known(K1, lambda: wit(ang=xa[s, i], ref_ang=ra[i],
                                      vel=xv[s, i], ref_vel=rv[i]),
                      monitor='link_velocity_unclaimed')
