"""C18 — running statistics equal the statistics of all data seen.

Reference model: numpy float64 population mean / variance of the concatenation
of all batches (integer weights expanded with np.repeat).
"""
import numpy as np

PROP = 'C18'
X64 = True
RULE = ('histories: nested observation structure (array, dict, nested dict; '
        'leaves of 1-6 features, sometimes 2-D), 2-200 samples split into 1-8 '
        'batches with 1-2 leading batch axes, optional integer weights in '
        '[0,4] (first batch total > 0), scales 1e-3..1e3 with offsets of the '
        'same order, constant columns. One event = one oracle on one history. '
        'distinct = hash of (structure, partition, data); non-trivial = >= 2 '
        'batches and (weights or 2 batch axes or nested structure)')
ASSUMPTIONS = [
    'round-off model: mean to 1e-9 relative to (|mean|+std); variance to '
    '1e-12*(mean^2+var) (Welford in float64 leaves sqrt(eps)*|mean| in the '
    'std of a constant column, which is round-off, not a defect)',
]


def config(tier):
  return {'workers': 14, 'job_timeout': 900, 'wall_cap': 3000}


def plan(tier, seed):
  n = 240 if tier == 'quick' else 10000
  per = 18 if tier == 'quick' else 250
  return [{'kind': 'hist', 'seed': seed, 'first': i, 'count': per}
          for i in range(0, n, per)]


def floors(tier):
  k = 1 if tier == 'quick' else 30
  return {'ev:mean_std_equal_population': 200 * k,
          'ev:count_is_total_weight': 200 * k,
          'ev:partition_invariant': 200 * k,
          'ev:weight_equals_repetition': 60 * k,
          'ev:std_clipped': 30 * k,
          'ev:normalize_round_trip': 200 * k,
          'ev:int_leaves_untouched': 50 * k,
          'ev:constant_column_std_min': 20 * k,
          'histories_with_integer_leaf': 20 * k}


def make_structure(rng):
  """Returns (template nest of feature shapes, description)."""
  def leaf():
    if rng.random() < 0.15:
      return (int(rng.integers(1, 4)), int(rng.integers(1, 4)))
    return (int(rng.integers(1, 7)),)
  kind = int(rng.integers(0, 4))
  if kind == 0:
    return leaf(), 'array'
  if kind == 1:
    return {'a': leaf(), 'b': leaf()}, 'dict'
  if kind == 2:
    return {'state': leaf(), 'aux': {'x': leaf(), 'y': leaf()}}, 'nested'
  return {'k%d' % i: leaf() for i in range(int(rng.integers(1, 5)))}, 'dict'


def tmap(f, *nests):
  n0 = nests[0]
  if isinstance(n0, dict):
    return {k: tmap(f, *[n[k] for n in nests]) for k in n0}
  return f(*nests)


def leaves(n):
  if isinstance(n, dict):
    out = []
    for k in sorted(n):
      out += leaves(n[k])
    return out
  return [n]


def run(job, mon):
  import jax
  from jax import numpy as jp
  from brax.training.acme import running_statistics as rs

  for c in range(job['first'], job['first'] + job['count']):
    rng = np.random.default_rng([job['seed'], c, 18])
    shapes, sdesc = make_structure(rng)
    # batch sizes come from a small set so that array shapes (and hence XLA
    # compilations) repeat across histories; the partition still varies
    sizes = [1, 2, 3, 4, 5, 6, 8, 10, 12, 16, 21, 32, 50]
    nb = int(rng.integers(1, 9))
    bs = [int(rng.choice(sizes)) for _ in range(nb)]
    while sum(bs) > 200:
      bs[int(np.argmax(bs))] = 1
    if sum(bs) < 2:
      bs = [2]
    n = sum(bs)
    cuts = [0] + [int(x) for x in np.cumsum(bs)]
    weighted = rng.random() < 0.45
    scale_exp = rng.uniform(-3, 3)
    const_col = rng.random() < 0.25

    def gen_leaf(shape):
      sc = 10 ** (scale_exp + rng.uniform(-0.5, 0.5, shape))
      off = sc * rng.uniform(-3, 3, shape)
      d = off + sc * rng.normal(size=(n,) + shape)
      if const_col:
        idx = tuple(int(rng.integers(0, s)) for s in shape)
        # constants of every kind: integers (n*c/n exact) and values such as
        # 0.1, 123.456, 1e3/3 whose running sums round, so that the summed
        # variance can come out slightly negative
        cval = [float(rng.integers(-1000, 1001)), 0.1 * rng.integers(1, 100),
                float(rng.uniform(-1, 1) * 10 ** rng.uniform(-3, 3)),
                1e3 / 3, 9.81, 123.456][int(rng.integers(0, 6))]
        d[(slice(None),) + idx] = cval
        return d, idx
      return d, None
    gen = tmap(gen_leaf, shapes)
    data = tmap(lambda g: g[0], gen) if not isinstance(gen, tuple) else gen[0]
    cidx = tmap(lambda g: g[1], gen) if not isinstance(gen, tuple) else gen[1]
    w = rng.integers(0, 5, n) if weighted else np.ones(n, int)
    if weighted and w[:cuts[1]].sum() == 0:
      w[0] = int(rng.integers(1, 5))
    std_min, std_max = 1e-6, 1e6
    clip_case = rng.random() < 0.25
    if clip_case:
      s0 = 10 ** scale_exp
      std_min, std_max = float(s0 * rng.uniform(0.8, 1.0)), float(
          s0 * rng.uniform(1.0, 1.25))
    two_axes = rng.random() < 0.4

    # sometimes an integer-valued leaf (uint8 pixels / int32 counters): the
    # statistics of integer data are still the population statistics
    if isinstance(shapes, dict) and rng.random() < 0.3:
      ishape = (int(rng.integers(1, 4)),)
      shapes = dict(shapes, zz_int=ishape)
      idt = np.uint8 if rng.random() < 0.5 else np.int32
      data = dict(data, zz_int=rng.integers(
          0, 256, (n,) + ishape).astype(idt))
      if isinstance(cidx, dict):
        cidx = dict(cidx, zz_int=None)
      mon.count('histories_with_integer_leaf')
    template = tmap(lambda s: jp.zeros(s), shapes)
    wit = lambda **kw: dict(case=c, seed=job['seed'], structure=sdesc,
                            shapes=shapes, n=n, cuts=cuts, weighted=weighted,
                            two_axes=two_axes, std_min=std_min,
                            std_max=std_max, **kw)

    def feed(cuts_, two_axes_, use_weights=True, expand=False):
      st = rs.init_state(template)
      for i in range(len(cuts_) - 1):
        sl = slice(cuts_[i], cuts_[i + 1])
        m = cuts_[i + 1] - cuts_[i]
        ww = w[sl]
        if expand:
          b = tmap(lambda d: np.repeat(d[sl], ww, axis=0), data)
          if sum(ww) == 0:
            continue
          st = rs.update(st, tmap(jp.array, b), std_min_value=std_min,
                         std_max_value=std_max)
          continue
        bd = (m,)
        # factor the batch into two leading axes when possible
        if two_axes_:
          for f in (2, 3, 5, 7):
            if m % f == 0 and m > f:
              bd = (f, m // f)
              break
        b = tmap(lambda d: jp.array(d[sl].reshape(bd + d.shape[1:])), data)
        kw = {}
        if weighted and use_weights:
          kw['weights'] = jp.array(ww.reshape(bd).astype(np.float64))
        st = rs.update(st, b, std_min_value=std_min, std_max_value=std_max,
                       **kw)
      return st

    st = feed(cuts, two_axes)
    nontriv = nb >= 2 and (weighted or two_axes or sdesc == 'nested')
    mon.distinct(hash((sdesc, str(shapes), tuple(cuts), weighted,
                       leaves(data)[0].tobytes())), nontriv)
    if c == job['first']:
      mon.sample(wit(first_rows=tmap(lambda d: d[:2], data), weights=w[:10]))

    total = float(w.sum())
    mon.check('count_is_total_weight', float(st.count) == total,
              lambda: wit(count=float(st.count), total=total))

    def ref_stats(d):
      rep = np.repeat(d, w, axis=0)
      return rep.mean(0), rep.var(0)
    ref = tmap(ref_stats, data)
    ok = True
    worst_m, worst_v = 0.0, 0.0
    for got_m, got_s, d in zip(leaves(st.mean), leaves(st.std), leaves(data)):
      rm, rv = ref_stats(d)
      got_m, got_s = np.asarray(got_m), np.asarray(got_s)
      em = np.abs(got_m - rm) / (np.abs(rm) + np.sqrt(rv) + 1e-300)
      rstd = np.clip(np.sqrt(rv), std_min, std_max)
      ev = np.abs(got_s ** 2 - rstd ** 2) / (rm ** 2 + rv + std_min ** 2)
      worst_m, worst_v = max(worst_m, em.max()), max(worst_v, ev.max())
      ok = ok and got_m.shape == rm.shape and (em <= 1e-9).all() and (
          ev <= 1e-12 * 10).all()
      ok = ok and (got_s >= std_min).all() and (got_s <= std_max).all()
    mon.err('mean_rel', worst_m)
    mon.err('var_rel', worst_v)
    mon.check('mean_std_equal_population', ok,
              lambda: wit(mean=st.mean, std=st.std,
                          ref=tmap(lambda r: (r[0], np.sqrt(r[1])), ref)
                          if isinstance(ref, dict) else
                          (ref[0], np.sqrt(ref[1]))))
    if clip_case:
      hit = any(((np.sqrt(ref_stats(d)[1]) < std_min)
                 | (np.sqrt(ref_stats(d)[1]) > std_max)).any()
                for d in leaves(data))
      if hit:
        mon.count('clip_bound_active')
      mon.check('std_clipped',
                all((np.asarray(s) >= std_min).all()
                    and (np.asarray(s) <= std_max).all()
                    for s in leaves(st.std)), lambda: wit(std=st.std))
    if const_col and not clip_case:
      okc = True
      for s, d, ci in zip(leaves(st.std), leaves(data), leaves(cidx)):
        if ci is None:
          continue
        # round-off of Welford's update leaves at most ~sqrt(eps)*|c| here
        cval = abs(float(d[(0,) + tuple(ci)]))
        sv = float(np.asarray(s)[ci])
        okc = okc and std_min <= sv <= std_min + 1e-7 * cval
      mon.check('constant_column_std_min', okc, lambda: wit(std=st.std))

    # any re-partition (and other batch-axis layout) gives the same state
    cuts2 = [0]
    while cuts2[-1] < n:
      fit = [z for z in sizes if z <= n - cuts2[-1]]
      cuts2.append(cuts2[-1] + int(rng.choice(fit)))
      if len(cuts2) == 8:
        break
    if cuts2[-1] < n:
      cuts2.append(n)
    if weighted and w[:cuts2[1]].sum() == 0:
      cuts2 = cuts  # keep the first batch's total weight positive
    st2 = feed(cuts2, not two_axes)
    okp = float(st2.count) == float(st.count)
    for a, b, sa, sb, d in zip(leaves(st.mean), leaves(st2.mean),
                               leaves(st.std), leaves(st2.std), leaves(data)):
      rm, rv = ref_stats(d)
      a, b, sa, sb = map(np.asarray, (a, b, sa, sb))
      okp = okp and (np.abs(a - b) <= 1e-9 * (np.abs(rm) + np.sqrt(rv))).all()
      okp = okp and (np.abs(sa ** 2 - sb ** 2) <= 1e-11 * (
          rm ** 2 + rv + std_min ** 2)).all()
    mon.check('partition_invariant', okp,
              lambda: wit(cuts2=cuts2, a=st.mean, b=st2.mean, sa=st.std,
                          sb=st2.std))
    if weighted:
      st3 = feed(cuts, False, expand=True)
      okw = float(st3.count) == float(st.count)
      for a, b, sa, sb, d in zip(leaves(st.mean), leaves(st3.mean),
                                 leaves(st.std), leaves(st3.std),
                                 leaves(data)):
        rm, rv = ref_stats(d)
        a, b, sa, sb = map(np.asarray, (a, b, sa, sb))
        okw = okw and (np.abs(a - b) <= 1e-9 * (np.abs(rm) + np.sqrt(rv))
                       ).all()
        okw = okw and (np.abs(sa ** 2 - sb ** 2) <= 1e-11 * (
            rm ** 2 + rv + std_min ** 2)).all()
      mon.check('weight_equals_repetition', okw,
                lambda: wit(weighted_state=st.mean, repeated_state=st3.mean))

    # normalize / denormalize
    probe = tmap(lambda d: jp.array(d[: min(5, n)]), data)
    nz = rs.normalize(probe, st)
    back = rs.denormalize(nz, st)
    okn = True
    for p, z, bk, m_, s_ in zip(leaves(probe), leaves(nz), leaves(back),
                                leaves(st.mean), leaves(st.std)):
      if not np.issubdtype(np.asarray(p).dtype, np.inexact):
        # non-float leaves pass through normalize / denormalize untouched
        okn = okn and z is p and bk is p
        continue
      p, z, bk, m_, s_ = map(np.asarray, (p, z, bk, m_, s_))
      okn = okn and (np.abs(bk - p) <= 1e-9 * (np.abs(p) + np.abs(m_) + s_)
                     ).all()
      okn = okn and (np.abs(z - (p - m_) / s_) <= 1e-9 * (
          1 + np.abs((p - m_) / s_))).all()
    mon.check('normalize_round_trip', okn,
              lambda: wit(probe=probe, normalized=nz, back=back))
    if c % 4 == 0:
      mav = float(rng.uniform(0.1, 1.5))
      nzc = rs.normalize(probe, st, max_abs_value=mav)
      okc = all((np.abs(np.asarray(z)) <= mav).all() and
                (np.abs(np.asarray(z) - np.clip(np.asarray(u), -mav, mav))
                 <= 1e-12).all()
                for z, u in zip(leaves(nzc), leaves(nz))
                if np.issubdtype(np.asarray(z).dtype, np.inexact))
      mon.check('normalize_max_abs_value', okc,
                lambda: wit(max_abs_value=mav, got=nzc))
    if c % 3 == 0:
      # non-float leaves pass through untouched (same object)
      ints = jp.arange(6, dtype=jp.int32).reshape(2, 3)
      ist = rs.NestedMeanStd(mean={'f': leaves(st.mean)[0], 'i': jp.zeros(3)},
                             std={'f': leaves(st.std)[0], 'i': jp.ones(3) * 7})
      b = {'f': leaves(probe)[0], 'i': ints}
      n1 = rs.normalize(b, ist)
      d1 = rs.denormalize(b, ist)
      mon.check('int_leaves_untouched',
                n1['i'] is ints and d1['i'] is ints
                and n1['i'].dtype == jp.int32,
                lambda: wit(normalized=n1['i'], denormalized=d1['i']))
