"""C13 — fusing jointless bodies preserves geometry, mass and inertia.

Reference model: MuJoCo compiling the *original* document (static bodies are
welded by MuJoCo itself) vs MuJoCo compiling mjcf.fuse_bodies(document).
Everything is matched by element name.
"""
import numpy as np

PROP = 'C13'
X64 = True
RULE = ('documents: generator model of 1-3 jointed links + 1-3 insertions, '
        'each a chain of 1-3 nested jointless bodies (pos only / quat only / '
        'both / neither) under the world, a jointed body or another jointless '
        'body, holding box geoms (pos+quat), fromto capsules, sites and jointed '
        'child bodies; 3 random (q, qd) per document. One event = one named '
        'element (geom/site/body) compared at one state, or one M/bias '
        'comparison. distinct = (host kinds, attribute modes per chain); '
        'non-trivial = at least one inserted body has a rotation')
ASSUMPTIONS = [
    'MuJoCo 3.13 compiles the original (unfused) document correctly: static '
    'child bodies are welded to their parent',
    'fuse_bodies rewrites numbers with %f, so agreement is demanded to 5e-5 '
    '(observed <= 5e-6), a wrong composition is >= 1e-2',
]
TOL = 5e-5
TOL_M = 1e-4


def config(tier):
  return {'workers': 14, 'job_timeout': 600, 'wall_cap': 3000}


def plan(tier, seed):
  ndocs = 308 if tier == 'quick' else 10080
  per = 22 if tier == 'quick' else 120
  return [{'kind': 'fuse', 'seed': seed, 'first': i, 'count': min(per, ndocs - i)}
          for i in range(0, ndocs, per)]


def floors(tier):
  k = 1 if tier == 'quick' else 20
  return {'ev:geom_pose': 1500 * k, 'ev:fromto_endpoints': 300 * k,
          'ev:site_pose': 300 * k, 'ev:jointed_body_pose': 500 * k,
          'ev:inertia_matrix': 300 * k, 'mode:pos': 30 * k, 'mode:quat': 30 * k,
          'mode:both': 30 * k, 'mode:none': 30 * k, 'depth3_chains': 10 * k,
          'host:world': 30 * k, 'host:jointed': 30 * k,
          'cancelling_child_pos': 10 * k, 'cancelling_child_quat': 2 * k}


def add_static(rng, root, mon):
  """Insert chains of jointless bodies at random places of the body tree."""
  from xml.etree import ElementTree as ET
  from vf import gen
  wb = root.find('worldbody')
  hosts = [wb] + list(wb.iter('body'))
  desc = []
  k = 0
  for _ in range(int(rng.integers(1, 4))):
    host = hosts[int(rng.integers(len(hosts)))]
    hk = 'world' if host is wb else (
        'static' if host.get('name', '').startswith('s') else 'jointed')
    mon.count('host:' + hk)
    depth = int(rng.integers(1, 4))
    if depth == 3:
      mon.count('depth3_chains')
    cur = host
    modes = []
    for _ in range(depth):
      mode = str(rng.choice(['pos', 'quat', 'both', 'none']))
      mon.count('mode:' + mode)
      modes.append(mode)
      attrs = {'name': 's%d' % k}
      if mode in ('pos', 'both'):
        attrs['pos'] = gen.fmt(rng.uniform(-0.5, 0.5, 3))
      if mode in ('quat', 'both'):
        attrs['quat'] = gen.fmt(gen.rquat(rng))
      # special values: axis-aligned half turns as wrapper rotation
      half_turn = None
      if mode in ('quat', 'both') and rng.random() < 0.2:
        half_turn = [[0., 1, 0, 0], [0., 0, 1, 0], [0., 0, 0, 1]][
            int(rng.integers(3))]
        attrs['quat'] = gen.fmt(half_turn)
      sb = ET.SubElement(cur, 'body', attrs)
      off = {'contype': '0', 'conaffinity': '0'}
      if rng.random() < 0.3:
        # a child whose own pos / quat exactly cancels the wrapper's, so the
        # composed value is exactly the default (0 0 0 / 1 0 0 0)
        ca = dict(name='sc%d' % k, type='box', size='0.04 0.05 0.06',
                  mass='0.25', **off)
        if 'pos' in attrs and mode == 'pos':
          ca['pos'] = gen.fmt(-np.fromstring(attrs['pos'], sep=' '))
          mon.count('cancelling_child_pos')
        if half_turn is not None and mode == 'quat':
          ca['quat'] = gen.fmt([half_turn[0]] + [-v for v in half_turn[1:]])
          mon.count('cancelling_child_quat')
        ET.SubElement(sb, 'geom', ca)
      ET.SubElement(sb, 'geom', dict(
          name='sg%d' % k, type='box', size='0.05 0.06 0.07',
          pos=gen.fmt(rng.uniform(-.3, .3, 3)), quat=gen.fmt(gen.rquat(rng)),
          mass='0.5', **off))
      if rng.random() < 0.7:
        ft = np.concatenate([rng.uniform(-.3, .3, 3), rng.uniform(-.3, .3, 3)])
        ET.SubElement(sb, 'geom', dict(
            name='sf%d' % k, type='capsule', size='0.03',
            fromto=' '.join('%.6f' % v for v in ft), mass='0.3', **off))
      if rng.random() < 0.3:
        # geom with default pose (no pos / quat attribute at all)
        ET.SubElement(sb, 'geom', dict(
            name='sd%d' % k, type='sphere', size='0.04', mass='0.2', **off))
      if rng.random() < 0.7:
        ET.SubElement(sb, 'site', dict(
            name='ss%d' % k, pos=gen.fmt(rng.uniform(-.3, .3, 3)),
            quat=gen.fmt(gen.rquat(rng))))
      if rng.random() < 0.6:
        jb = ET.SubElement(sb, 'body', dict(
            name='sj%d' % k, pos=gen.fmt(rng.uniform(-.3, .3, 3)),
            quat=gen.fmt(gen.rquat(rng))))
        ET.SubElement(jb, 'joint', dict(
            name='sjj%d' % k, type=str(rng.choice(['hinge', 'slide'])),
            axis=gen.fmt(gen.runit(rng))))
        ET.SubElement(jb, 'geom', dict(
            name='sjg%d' % k, type='sphere', size='0.08',
            pos=gen.fmt(rng.uniform(-.2, .2, 3)), mass='0.4', **off))
        hosts.append(jb)
      hosts.append(sb)
      cur = sb
      k += 1
    desc.append((hk, tuple(modes)))
  return desc


def endpoints(m, d, name):
  g = d.geom(name)
  ax = g.xmat.reshape(3, 3)[:, 2]
  h = m.geom(name).size[1]
  return g.xpos + h * ax, g.xpos - h * ax


def run(job, mon):
  import mujoco
  from xml.etree import ElementTree as ET
  from brax.io import mjcf
  from vf import gen

  for k in range(job['first'], job['first'] + job['count']):
    rng = np.random.default_rng([job['seed'], k, 13])
    spec = gen.gen_model(rng, n_links=int(rng.integers(1, 4)),
                         free_root=False, actuators=False)
    root = ET.fromstring(gen.to_xml(spec))
    desc = add_static(rng, root, mon)
    xml0 = ET.tostring(root, encoding='unicode')
    xml1 = mjcf.fuse_bodies(xml0)
    rotated = any(m in ('quat', 'both') for _, ms in desc for m in ms)
    mon.distinct(str(sorted(desc)), rotated)
    if k == job['first']:
      mon.sample({'inserted_chains': desc, 'document': xml0[:1500]})
    m0 = mujoco.MjModel.from_xml_string(xml0)
    m1 = mujoco.MjModel.from_xml_string(xml1)
    d0, d1 = mujoco.MjData(m0), mujoco.MjData(m1)
    wit = {'doc_index': k, 'seed': job['seed'], 'chains': desc}
    if not mon.check('dof_count', m0.nv == m1.nv and m0.njnt == m1.njnt,
                     dict(wit, nv=(m0.nv, m1.nv))):
      continue
    # every static body must be gone, every jointed body must remain
    names1 = {m1.body(b).name for b in range(m1.nbody)}
    jointed = [m0.body(b).name for b in range(1, m0.nbody)
               if m0.body_jntnum[b] > 0]
    mon.check('jointed_bodies_kept', all(n in names1 for n in jointed), wit)
    mon.check('static_bodies_fused',
              not any(n.startswith('s') and not n.startswith('sj')
                      for n in names1), dict(wit, left=sorted(names1)))
    jn = [m0.joint(j).name for j in range(m0.njnt)]
    for s in range(3):
      for name in jn:
        v, w = rng.uniform(-1, 1), rng.uniform(-1, 1)
        d0.qpos[m0.joint(name).qposadr[0]] = v
        d1.qpos[m1.joint(name).qposadr[0]] = v
        d0.qvel[m0.joint(name).dofadr[0]] = w
        d1.qvel[m1.joint(name).dofadr[0]] = w
      mujoco.mj_forward(m0, d0)
      mujoco.mj_forward(m1, d1)
      for g in range(m0.ngeom):
        name = m0.geom(g).name
        try:
          m1.geom(name)
        except KeyError:
          mon.check('geom_pose', False, dict(wit, missing_geom=name))
          continue
        if name.startswith('sf'):
          a0, b0 = endpoints(m0, d0, name)
          a1, b1 = endpoints(m1, d1, name)
          e = min(max(np.abs(a0 - a1).max(), np.abs(b0 - b1).max()),
                  max(np.abs(a0 - b1).max(), np.abs(b0 - a1).max()))
          e = max(e, abs(m0.geom(name).size[0] - m1.geom(name).size[0]))
          mon.err('fromto_endpoints', e)
          mon.check('fromto_endpoints', e <= TOL,
                    lambda: dict(wit, geom=name, err=e, xml=xml0))
        else:
          e = max(np.abs(d0.geom(name).xpos - d1.geom(name).xpos).max(),
                  np.abs(d0.geom(name).xmat - d1.geom(name).xmat).max())
          mon.err('geom_pose', e)
          mon.check('geom_pose', e <= TOL,
                    lambda: dict(wit, geom=name, err=e, xml=xml0))
      for g in range(m0.nsite):
        name = m0.site(g).name
        e = max(np.abs(d0.site(name).xpos - d1.site(name).xpos).max(),
                np.abs(d0.site(name).xmat - d1.site(name).xmat).max())
        mon.err('site_pose', e)
        mon.check('site_pose', e <= TOL,
                  lambda: dict(wit, site=name, err=e, xml=xml0))
      for name in jointed:
        e = max(np.abs(d0.body(name).xpos - d1.body(name).xpos).max(),
                np.abs(d0.body(name).xmat - d1.body(name).xmat).max())
        mon.err('jointed_body_pose', e)
        mon.check('jointed_body_pose', e <= TOL,
                  lambda: dict(wit, body=name, err=e, xml=xml0))
      big0 = np.zeros((m0.nv, m0.nv))
      big1 = big0.copy()
      mujoco.mj_fullM(m0, d0, big0)
      mujoco.mj_fullM(m1, d1, big1)
      p0 = [m0.joint(n).dofadr[0] for n in jn]
      p1 = [m1.joint(n).dofadr[0] for n in jn]
      e = np.abs(big0[np.ix_(p0, p0)] - big1[np.ix_(p1, p1)]).max() / (
          1 + np.abs(big0).max())
      mon.err('inertia_matrix', e)
      mon.check('inertia_matrix', e <= TOL_M,
                lambda: dict(wit, err=e, xml=xml0))
      e = np.abs(d0.qfrc_bias[p0] - d1.qfrc_bias[p1]).max() / (
          1 + np.abs(d0.qfrc_bias).max())
      mon.err('bias_force', e)
      mon.check('bias_force', e <= TOL_M, lambda: dict(wit, err=e, xml=xml0))
      # total mass of moving bodies: subtree mass of each jointed body
      for name in jointed:
        e = abs(m0.body(name).subtreemass[0] - m1.body(name).subtreemass[0])
        mon.check('subtree_mass', e <= 1e-9,
                  lambda: dict(wit, body=name, err=e))
