"""C12 — generalized integrator consistency: drift extrapolated to dt->0 is 0.

Order-of-convergence invariant. Energy is evaluated by the reference engine
(MuJoCo, mjENBL_ENERGY) at brax's (q, qd), so brax's own mass matrix is not
trusted; momentum likewise from MuJoCo's subtree velocities.
"""
import numpy as np

PROP = 'C12'
X64 = True
RULE = ('models: conservative generator forests (no damping, limits or '
        'actuators; joint springs allowed; exact mass-matrix inverse); one '
        'initial state with |qd|<=1; the state after T=0.064 s reached with '
        '64, 128, 256 and 512 steps. One event = one model/state with the three '
        'drifts and the Richardson-extrapolated drift. distinct = (topology, '
        'signature multiset); non-trivial = >= 2 dofs and energy drift above '
        '1e-7 at the coarsest step (so the order test is not vacuous)')
ASSUMPTIONS = [
    'MuJoCo 3.13 potential+kinetic energy and subtree linear velocity at '
    "brax's (q, qd) are the reference observables",
    'a consistent first-order scheme has D(h)=c1 h+c2 h^2+c3 h^3+O(h^4); the '
    'four-point Richardson extrapolation D0=(64D(h/8)-56D(h/4)+14D(h/2)-D(h))'
    '/21 must vanish: |D0| <= 0.02 max|D| + 1e-9 (the three-point form left '
    'up to 1.3% on stiff 15-24 dof models, too close to the threshold)',
]
T_HORIZON = 0.064


def config(tier):
  return {'workers': 14, 'job_timeout': 1500, 'wall_cap': 6000}


def plan(tier, seed):
  n = 42 if tier == 'quick' else 420
  per = 3 if tier == 'quick' else 10
  return [{'kind': 'drift', 'seed': seed, 'first': i, 'count': per}
          for i in range(0, n, per)]


def floors(tier):
  k = 1 if tier == 'quick' else 10
  return {'ev:energy_drift_vanishes': 36 * k,
          'ev:momentum_drift_vanishes': 6 * k,
          'models_with_measurable_drift': 25 * k,
          'models_with_slide_on_rotated_body': 10 * k,
          'models_with_springs': 6 * k}


def run(job, mon):
  import jax
  from jax import numpy as jp
  import mujoco
  from brax.generalized import pipeline as gp
  from vf import gen, phys

  for c in range(job['first'], job['first'] + job['count']):
    rng = np.random.default_rng([job['seed'], c, 12])
    all_free = c % 4 == 0
    spec = gen.gen_model(rng, limits=False, actuators=False,
                         free_root=True if all_free else None)
    for b in spec['bodies']:
      if all_free and b['parent'] == -1 and not b['free']:
        b['free'] = True
        b['joints'] = []
      for j in b['joints']:
        j.pop('damping', None)
    xml = gen.to_xml(spec)
    sys_ = phys.load(xml)
    mj = sys_.mj_model
    mj.opt.enableflags |= mujoco.mjtEnableBit.mjENBL_ENERGY
    d = mujoco.MjData(mj)
    info = gen.classify(spec)
    slide_rot = any(
        any(j['type'] == 'slide' for j in b['joints'])
        and (info[i]['rotated'] or b['parent'] != -1)
        for i, b in enumerate(spec['bodies']))
    springs = any('stiffness' in j for b in spec['bodies']
                  for j in b['joints'])
    if slide_rot:
      mon.count('models_with_slide_on_rotated_body')
    if springs:
      mon.count('models_with_springs')
    roots_free = all(b['free'] for b in spec['bodies'] if b['parent'] == -1)

    def observe(q, qd):
      d.qpos[:] = q
      d.qvel[:] = qd
      mujoco.mj_forward(mj, d)
      mujoco.mj_subtreeVel(mj, d)
      e = d.energy[0] + d.energy[1]
      p = np.zeros(3)
      for b in range(1, mj.nbody):
        if mj.body_parentid[b] == 0:
          p += mj.body_subtreemass[b] * d.subtree_linvel[b]
      return e, p

    def run_n(q, qd, dt, n):
      s2 = sys_.tree_replace({'opt.timestep': dt})
      st = gp.init(s2, q, qd)
      st = jax.lax.fori_loop(
          0, n, lambda i, s: gp.step(s2, s, jp.zeros(0)), st)
      return st.q, st.qd
    runj = jax.jit(run_n)
    q, qd = gen.rand_state(rng, mj, qscale=1.0)
    e0, p0 = observe(q, qd)
    mtot = mj.body_mass[1:].sum()
    drift_e, drift_p = [], []
    fin = True
    for n in (64, 128, 256, 512):
      qt, qdt = runj(jp.array(q), jp.array(qd), T_HORIZON / n, n)
      qt, qdt = np.asarray(qt), np.asarray(qdt)
      if not phys.finite(qt, qdt):
        fin = False
        break
      e, p = observe(qt, qdt)
      drift_e.append(e - e0)
      drift_p.append(p - p0 - mtot * np.asarray(sys_.gravity) * T_HORIZON)
    if not fin:
      mon.count('models_diverged')
      continue
    d1, d2, d4, d8 = drift_e
    # Richardson extrapolation to h -> 0 removing the h, h^2 and h^3 terms
    ext = (64 * d8 - 56 * d4 + 14 * d2 - d1) / 21
    dmax = max(abs(d1), abs(d2), abs(d4), abs(d8))
    measurable = dmax > 1e-7
    if measurable:
      mon.count('models_with_measurable_drift')
      mon.err('energy_extrapolated_over_max', abs(ext) / dmax)
    mon.distinct(gen.topo_key(spec), measurable and mj.nv >= 2)
    wit = lambda **kw: dict(model=c, seed=job['seed'], xml=xml, q=q, qd=qd,
                            horizon=T_HORIZON, steps=(64, 128, 256, 512), **kw)
    mon.check('energy_drift_vanishes', abs(ext) <= 0.02 * dmax + 1e-9,
              lambda: wit(E0=e0, drift=drift_e, extrapolated=ext,
                          ratio_h2_h1=d2 / d1 if d1 else None))
    if roots_free:
      p1, p2, p4, p8 = drift_p
      extp = (64 * p8 - 56 * p4 + 14 * p2 - p1) / 21
      pmax = max(np.abs(p1).max(), np.abs(p2).max(), np.abs(p4).max(),
                 np.abs(p8).max())
      mon.check('momentum_drift_vanishes',
                np.abs(extp).max() <= 0.02 * pmax + 1e-9,
                lambda: wit(momentum_drift=drift_p, extrapolated=extp))
    if c == job['first']:
      mon.sample(dict(model=c, nv=int(mj.nv), E0=e0, energy_drift=drift_e,
                      extrapolated=ext,
                      signatures=sorted(info[i]['sig'] for i in info)))
