"""C04 — momentum conservation (spring, positional) and rest stays rest."""
import numpy as np

PROP = 'C04'
X64 = True
RULE = ('momentum: all-roots-free generator models (any stacks, limits, '
        'actuators, random control every step), 30 (quick) / 200 (thorough) '
        'step histories in spring and positional, plus two-body collision '
        'scenes (sphere/capsule, with and without gravity) run with and '
        'without collision geometry. One event = one step of one history. '
        'rest: generator models (any roots/stacks, no joint springs, motors '
        'only) at qd=0, gravity 0, ctrl 0, q inside limits, one step, three '
        'pipelines. distinct = (topology, signature multiset, workload); '
        'non-trivial = >= 2 links')
ASSUMPTIONS = [
    'total momentum is computed by the monitor from the public state: '
    'sum_i m_i (xd.vel_i + xd.ang_i x R_i ipos_i) with masses and inertial '
    'offsets from the MuJoCo model',
    'rest is claimed for generalized on every model and for spring / '
    'positional on models whose stacks are all orthogonal and in the '
    'invertible class; other models are compared and classified (K3)',
]
K3 = {'spring': 'rest:spring:model-has-non-orthogonal-or-non-invertible-stack',
      'positional':
          'rest:positional:model-has-non-orthogonal-or-non-invertible-stack'}


def config(tier):
  return {'workers': 14, 'job_timeout': 1800, 'wall_cap': 7000}


def plan(tier, seed):
  q = tier == 'quick'
  jobs = []
  nm, per = (28, 2) if q else (420, 10)
  for i in range(0, nm, per):
    jobs.append({'kind': 'momentum', 'seed': seed, 'first': i, 'count': per,
                 'T': 30 if q else 200})
  nc, per = (14, 1) if q else (280, 10)
  for i in range(0, nc, per):
    jobs.append({'kind': 'collision', 'seed': seed, 'first': i, 'count': per,
                 'T': 200})
  nr, per = (28, 2) if q else (420, 10)
  for i in range(0, nr, per):
    jobs.append({'kind': 'rest', 'seed': seed, 'first': i, 'count': per})
  return jobs


def floors(tier):
  k = 1 if tier == 'quick' else 30
  return {'ev:momentum:spring': 500 * k, 'ev:momentum:positional': 500 * k,
          'ev:collision_momentum:spring': 1500 * k,
          'ev:collision_momentum:positional': 1500 * k,
          'collision_scenes_where_contact_acted': 12 * (
              1 if tier == 'quick' else 10),
          'ev:rest:generalized': 24 * (1 if tier == 'quick' else 10),
          'ev:rest:spring': 8 * (1 if tier == 'quick' else 10),
          'ev:rest:positional': 8 * (1 if tier == 'quick' else 10),
          'momentum_models_with_actuators': 6, 'momentum_models_with_limits': 6,
          'rest_models_three_hinge_limited': 6 * (1 if tier == 'quick' else 10),
          'momentum_models_with_inertia_scale': 8}


def total_momentum(mj, pos, rot, ang, vel):
  """Arrays [T, L, .] -> [T, 3] linear momentum from the public state."""
  mass = mj.body_mass[1:]
  ipos = mj.body_ipos[1:]
  w, u = rot[..., :1], rot[..., 1:]
  # rotate ipos by rot (unit quaternion)
  r = (2 * (u * ipos).sum(-1, keepdims=True) * u
       + (w * w - (u * u).sum(-1, keepdims=True)) * ipos
       + 2 * w * np.cross(u, ipos))
  lever = np.cross(ang, r)
  vcom = vel + lever
  # round-off scale: vel and the lever term can cancel when a stiff model
  # spins up, so the scale uses both terms, not their sum; the code derives
  # xd.vel from a difference of world positions, whose round-off is
  # eps * |pos| * |ang|, so that enters the scale as well
  far = np.abs(ang).max(-1, keepdims=True) * np.abs(pos)
  return (mass[None, :, None] * vcom).sum(1), (
      mass[None, :, None] * (np.abs(vel) + np.abs(lever) + far)).sum((1, 2))


def run(job, mon):
  import jax
  from jax import numpy as jp
  from vf import gen, phys
  kind = job['kind']

  def history(sys_, p, t_len):
    def hist(q, qd, ctrls):
      st = p.init(sys_, q, qd)

      def f(s, u):
        s2 = p.step(sys_, s, u)
        return s2, (s2.x.pos, s2.x.rot, s2.xd.ang, s2.xd.vel, s2.xd_i.vel,
                    s2.mass)
      first = (st.x.pos, st.x.rot, st.xd.ang, st.xd.vel, st.xd_i.vel,
               st.mass)
      _, rest = jax.lax.scan(f, st, ctrls, length=t_len)
      return first, rest
    return jax.jit(hist)

  def check_momentum(name, mj, sys_, first, rest, wit):
    arrs = [np.concatenate([np.asarray(a)[None], np.asarray(b)], 0)
            for a, b in zip(first, rest)]
    fin = np.array([all(np.isfinite(a[t]).all() for a in arrs)
                    for t in range(arrs[0].shape[0])])
    t_ok = int(np.argmin(fin)) if not fin.all() else len(fin)
    if t_ok < len(fin):
      mon.count('histories_ending_non_finite')
    arrs = [a[:t_ok] for a in arrs]
    if t_ok < 2:
      return None
    mtot = mj.body_mass[1:].sum()
    g = np.asarray(sys_.gravity)
    dt = float(sys_.opt.timestep)
    # (a) the state's own centre-of-mass velocities and masses
    p = (arrs[5][..., None] * arrs[4]).sum(1)
    scale = (arrs[5][..., None] * np.abs(arrs[4])).sum((1, 2))
    err = np.abs(p[1:] - p[:-1] - mtot * g * dt).max(1) / (
        1 + np.maximum(scale[1:], scale[:-1]))
    # (b) recomputed from the public link state and the MuJoCo model's masses
    p_b, scale_b = total_momentum(mj, *arrs[:4])
    err_b = np.abs(p_b[1:] - p_b[:-1] - mtot * g * dt).max(1) / (
        1 + np.maximum(scale_b[1:], scale_b[:-1]))
    mon.err(name + ':public_state', float(err_b.max()))
    bad_b = int(np.argmax(err_b > 1e-9)) if (err_b > 1e-9).any() else None
    mon.check(name + ':public_state', bad_b is None,
              lambda: dict(wit(), step=bad_b, err=float(err_b[bad_b]),
                           p_before=p_b[bad_b], p_after=p_b[bad_b + 1],
                           expected_delta=mtot * g * dt))
    mon.err(name, float(err.max()))
    mon.count('ev:' + name, len(err) - 1)
    bad = int(np.argmax(err > 1e-9)) if (err > 1e-9).any() else None
    mon.check(name, bad is None,
              lambda: dict(wit(), step=bad, err=float(err[bad]),
                           p_before=p[bad], p_after=p[bad + 1],
                           expected_delta=mtot * g * dt))
    return arrs

  if kind == 'momentum':
    for c in range(job['first'], job['first'] + job['count']):
      rng = np.random.default_rng([job['seed'], c, 4])
      spec = gen.gen_model(rng, free_root=True)
      names = set()
      for b in spec['bodies']:
        if b['parent'] == -1 and not b['free']:
          b['free'] = True
          b['joints'] = []
        names |= {j['name'] for j in b['joints']}
      spec['acts'] = [a for a in spec['acts'] if a['joint'] in names]
      if c % 2:
        # the inertia scaling used by several bundled robots (mass scaling
        # stays at its default 0, so masses are the true ones)
        spec['custom_numeric'] = {
            'spring_inertia_scale': [float(rng.choice([0.5, 1.0]))]}
        mon.count('momentum_models_with_inertia_scale')
      xml = gen.to_xml(spec)
      sys_ = phys.load(xml)
      mj = sys_.mj_model
      if spec['acts']:
        mon.count('momentum_models_with_actuators')
      if any('range' in j for b in spec['bodies'] for j in b['joints']):
        mon.count('momentum_models_with_limits')
      mon.distinct('mom|' + gen.topo_key(spec), len(spec['bodies']) >= 2)
      q, qd = gen.rand_state(rng, mj)
      ctrls = rng.uniform(-2, 2, (job['T'], mj.nu))
      for pname in ('spring', 'positional'):
        p = phys.pipeline(pname)
        first, rest = history(sys_, p, job['T'])(
            jp.array(q), jp.array(qd), jp.array(ctrls))
        check_momentum('momentum:' + pname, mj, sys_, first, rest,
                       lambda: dict(model=c, seed=job['seed'], pipeline=pname,
                                    xml=xml, q=q, qd=qd))
      if c == job['first']:
        mon.sample(dict(workload='momentum', model=c, T=job['T'],
                        signatures=sorted(gen.stack_sig(b)
                                          for b in spec['bodies']),
                        n_actuators=len(spec['acts'])))
    return

  if kind == 'collision':
    for c in range(job['first'], job['first'] + job['count']):
      rng = np.random.default_rng([job['seed'], c, 44])

      def g(i, collide):
        typ = str(rng.choice(['sphere', 'capsule']))
        size = rng.uniform(0.08, 0.2, 1 if typ == 'sphere' else 2)
        return ('<geom name="g%d" type="%s" size="%s" pos="%s" quat="%s" '
                'mass="%r"%s/>') % (
                    i, typ, gen.fmt(size), gen.fmt(rng.uniform(-.05, .05, 3)),
                    gen.fmt(gen.rquat(rng)), float(rng.uniform(0.3, 3)), '{cc}')
      grav = '0 0 -9.81' if c % 2 else '0 0 0'
      el = float(rng.uniform(0, 0.9))
      ga, gb = g(0, True), g(1, True)
      # sometimes two geoms per body: several simultaneous contacts between
      # the same two bodies
      if rng.random() < 0.5:
        ga += g(2, True)
      if rng.random() < 0.5:
        gb += g(3, True)
      tmpl = ('<mujoco><option timestep="0.001" gravity="%s"/><custom>'
              '<numeric name="elasticity" data="%r"/></custom><worldbody>'
              '<body name="a"><freejoint/>%s</body><body name="b">'
              '<freejoint/>%s</body></worldbody></mujoco>') % (
                  grav, el, ga, gb)
      xml_on = tmpl.replace('{cc}', '')
      xml_off = tmpl.replace('{cc}', ' contype="0" conaffinity="0"')
      d = gen.runit(rng)
      q = np.concatenate([-0.3 * d, gen.rquat(rng),
                          0.3 * d + rng.uniform(-.05, .05, 3), gen.rquat(rng)])
      qd = np.concatenate([3 * d, rng.uniform(-2, 2, 3), -3 * d,
                           rng.uniform(-2, 2, 3)])
      mon.distinct('coll|%d' % c, True)
      for pname in ('spring', 'positional'):
        p = phys.pipeline(pname)
        vels = {}
        for tag, xml in (('on', xml_on), ('off', xml_off)):
          sys_ = phys.load(xml)
          first, rest = history(sys_, p, job['T'])(
              jp.array(q), jp.array(qd), jp.zeros((job['T'], 0)))
          arrs = check_momentum(
              'collision_momentum:' + pname, sys_.mj_model, sys_, first, rest,
              lambda: dict(scene=c, seed=job['seed'], pipeline=pname,
                           collisions=tag, xml=xml, q=q, qd=qd))
          vels[tag] = arrs[4] if arrs is not None else None
        if vels['on'] is not None and vels['off'] is not None:
          n = min(len(vels['on']), len(vels['off']))
          if np.abs(vels['on'][:n] - vels['off'][:n]).max() > 1e-6:
            mon.count('collision_scenes_where_contact_acted')
          else:
            mon.count('collision_scenes_without_contact')
      if c == job['first']:
        mon.sample(dict(workload='collision', scene=c, gravity=grav,
                        elasticity=el, q=q, qd=qd))
    return

  # rest
  for c in range(job['first'], job['first'] + job['count']):
    rng = np.random.default_rng([job['seed'], c, 444])
    mode = c % 4
    if mode == 3:
      # three-hinge stacks of either handedness with (asymmetric) ranges on
      # every axis: the class where a limit applied with the wrong sign kicks
      # a resting system that is inside its limits
      spec = gen.gen_model(rng, ortho=True, stack_kinds='hinge', min_stack=3,
                           limit_prob=0.9, stiffness=False,
                           n_links=int(rng.integers(1, 4)))
      mon.count('rest_models_three_hinge_limited')
    elif mode == 0:
      spec = gen.gen_model(rng, ortho=True, stack_kinds='invertible',
                           stiffness=False)
    else:
      spec = gen.gen_model(rng, ortho=bool(mode == 1), stiffness=False)
    spec['gravity'] = [0.0, 0.0, 0.0]
    spec['acts'] = [a for a in spec['acts'] if a['kind'] == 'motor']
    xml = gen.to_xml(spec)
    sys_ = phys.load(xml)
    mj = sys_.mj_model
    info = gen.classify(spec)
    claimed_sp = all(b['free'] or (info[i]['ortho'] and info[i]['invertible'])
                     for i, b in enumerate(spec['bodies']))
    mon.distinct('rest|' + gen.topo_key(spec), len(spec['bodies']) >= 2)
    q, _ = gen.state_inside_limits(rng, mj, frac=0.9, qscale=1.0)
    for pname in phys.PIPELINES:
      p = phys.pipeline(pname)

      def one(q, p=p):
        st = p.init(sys_, q, jp.zeros(mj.nv))
        st2 = p.step(sys_, st, jp.zeros(mj.nu))
        return (st.x.pos, st2.x.pos, st2.qd, st2.xd.vel, st2.xd.ang, st2.q,
                st.x.rot, st2.x.rot)
      x0, x1, qd1, v1, a1, q1, r0, r1 = [
          np.asarray(a) for a in jax.jit(one)(jp.array(q))]
      e_v = max(np.abs(qd1).max() if qd1.size else 0.0, np.abs(v1).max(),
                np.abs(a1).max())
      e_x = max(np.abs(x1 - x0).max(), phys.quat_err(r1, r0).max())
      ok = e_v <= 1e-9 and e_x <= 1e-10
      wit = lambda: dict(model=c, seed=job['seed'], pipeline=pname, xml=xml,
                         q=q, qd_after=qd1, dx=x1 - x0,
                         signatures=[info[i]['sig'] for i in
                                     gen.dfs_order(spec)],
                         orthogonal=[info[i]['ortho'] for i in
                                     gen.dfs_order(spec)])
      if pname == 'generalized' or claimed_sp:
        mon.err('rest:' + pname, max(e_v, e_x))
        mon.check('rest:' + pname, ok, wit)
      else:
        mon.count('rest_unclaimed_compared:' + pname)
        if ok:
          mon.count('rest_unclaimed_holds:' + pname)
        else:
          mon.known(K3[pname], wit, monitor='rest_unclaimed:' + pname)
    if c == job['first']:
      mon.sample(dict(workload='rest', model=c, q=q,
                      signatures=[info[i]['sig'] for i in
                                  gen.dfs_order(spec)]))
