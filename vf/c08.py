"""C08 — joint <-> world round trips; reported coordinates are the inverse image.
"""
import numpy as np

PROP = 'C08'
X64 = True
RULE = ('models: generator forests with mutually orthogonal stacked axes '
        '(either handedness) restricted to the invertible stack classes, plus '
        'unrestricted models so that excluded classes are seen and classified; '
        '4 states per model, q in [-1.2,1.2], unit root quaternions. One '
        'event = one link round trip (q or qd) at one state, or one '
        'reported-vs-recomputed comparison after a spring/positional step. '
        'distinct = (topology, signature multiset); non-trivial = the model '
        'has a stack of >= 2 joints or a non-zero anchor')
ASSUMPTIONS = [
    'claimed for q: free links and orthogonal stacks h, hh, hhh, s, ss, sss, '
    'sh, ssh (with or without anchor offset); claimed for qd: free links and '
    'single hinges; everything else is compared and classified under the '
    'known findings K2a/K2b/K2c by stack signature',
]
K2A = 'q-roundtrip:hinge-before-slide-or-slide-then-two-hinges'
K2B = 'qd-roundtrip:prismatic-or-stacked-joint'
K2C = 'q-roundtrip:non-orthogonal-stack'
CLAIMED = ('h', 'hh', 'hhh', 's', 'ss', 'sss', 'sh', 'ssh')


def config(tier):
  return {'workers': 14, 'job_timeout': 1500, 'wall_cap': 6000}


def plan(tier, seed):
  n = 84 if tier == 'quick' else 1512
  per = 6 if tier == 'quick' else 27
  jobs = [{'kind': 'rt', 'seed': seed, 'first': i, 'count': per,
           'steps_every': 3} for i in range(0, n, per)]
  # ordered forest shapes with 1..6 links: a seed-rotated third in the quick
  # tier, all 196 in the thorough tier (claimed stacks only)
  from vf import gen
  shapes = [p for m in range(1, 7) for p in gen.all_forests(m)]
  if tier == 'quick':
    shapes = [p for i, p in enumerate(shapes) if (i + seed) % 3 == 0]
  for i in range(0, len(shapes), 10):
    jobs.append({'kind': 'rt', 'seed': seed, 'first': 500000 + i,
                 'count': len(shapes[i:i + 10]), 'shapes': shapes[i:i + 10],
                 'steps_every': 10 ** 9})
  return jobs


def floors(tier):
  k = 1 if tier == 'quick' else 15
  f = {'ev:q_round_trip_claimed': 500 * k, 'ev:qd_round_trip_claimed': 200 * k,
       'ev:reported_q_is_inverse_image:spring': 60 * k,
       'ev:reported_q_is_inverse_image:positional': 60 * k,
       'unclaimed_compared': 100 * k, 'near_zero_states': 100 * k,
       'forest_shapes_enumerated': 60 if tier == 'quick' else 196}
  for s in CLAIMED:
    f['claimed_sig:' + s] = 5 * (1 if tier == 'quick' else 10)
  return f


def run(job, mon):
  import jax
  from jax import numpy as jp
  from brax import kinematics
  from vf import gen, phys

  for c in range(job['first'], job['first'] + job['count']):
    rng = np.random.default_rng([job['seed'], c, 8])
    mode = c % 3
    if 'shapes' in job:
      spec = gen.gen_model(rng, parents=job['shapes'][c - job['first']],
                           ortho=True, stack_kinds='invertible',
                           actuators=False)
      mon.count('forest_shapes_enumerated')
    elif mode == 0:
      spec = gen.gen_model(rng, ortho=True, stack_kinds='invertible')
    elif mode == 1:
      # force every claimed signature to appear: pick per-body stacks
      spec = gen.gen_model(rng, ortho=True, stack_kinds='invertible',
                           max_stack=3, free_root=False)
    else:
      spec = gen.gen_model(rng, ortho=bool(rng.random() < 0.5))
    xml = gen.to_xml(spec)
    sys_ = phys.load(xml)
    mj = sys_.mj_model
    order = gen.dfs_order(spec)
    info = gen.classify(spec)
    mon.distinct(gen.topo_key(spec), any(
        len(b['joints']) >= 2 or info[i]['sig'].endswith('A')
        for i, b in enumerate(spec['bodies'])))

    def rt(q, qd):
      x, xd = kinematics.forward(sys_, q, qd)
      j, jd, _, _ = kinematics.world_to_joint(sys_, x, xd)
      return kinematics.inverse(sys_, j, jd)

    rtj = jax.jit(rt)
    states = []
    for s in range(6):
      q, qd = gen.rand_state(rng, mj, qscale=1.2)
      if s >= 4:
        # the default pose and poses a hair away from it: joint coordinates
        # exactly 0 / of order 1e-5 (arccos / arctan2 near their branch points)
        for j in range(mj.njnt):
          if mj.jnt_type[j] != 0:
            q[mj.jnt_qposadr[j]] = 0.0 if s == 4 else float(
                rng.uniform(-1, 1) * 10 ** rng.uniform(-6, -4))
        mon.count('near_zero_states')
      states.append((q, qd))
      q2, qd2 = [np.asarray(a) for a in rtj(jp.array(q), jp.array(qd))]
      qa = da = 0
      for b in order:
        bd, k = spec['bodies'][b], info[b]
        sig = k['sig'].rstrip('A')
        if bd['free']:
          e = max(np.abs(q2[qa:qa + 3] - q[qa:qa + 3]).max(),
                  phys.quat_err(q2[qa + 3:qa + 7], q[qa + 3:qa + 7]))
          ed = np.abs(qd2[da:da + 6] - qd[da:da + 6]).max()
          n, nd = 7, 6
        else:
          n = nd = len(bd['joints'])
          e = np.abs(q2[qa:qa + n] - q[qa:qa + n]).max()
          ed = np.abs(qd2[da:da + n] - qd[da:da + n]).max()
        wit = lambda: dict(model=c, seed=job['seed'], link=bd['name'],
                           sig=k['sig'], orthogonal=k['ortho'], xml=xml, q=q,
                           qd=qd, q_back=q2, qd_back=qd2)
        if bd['free'] or (k['ortho'] and sig in CLAIMED):
          mon.err('q_round_trip_claimed', e)
          mon.check('q_round_trip_claimed', e <= 1e-6, wit)  # arccos near 1: sqrt(eps)
          if s == 0 and not bd['free']:
            mon.count('claimed_sig:' + sig)
        else:
          mon.count('unclaimed_compared')
          if e <= 1e-6:
            mon.count('unclaimed_q_matches')
          else:
            mon.known(K2C if not k['ortho'] else K2A, wit,
                      monitor='q_round_trip_unclaimed')
        if bd['free'] or sig == 'h':
          mon.err('qd_round_trip_claimed', ed)
          mon.check('qd_round_trip_claimed', ed <= 1e-7, wit)
        elif ed <= 1e-7:
          mon.count('unclaimed_qd_matches')
        else:
          mon.known(K2B, wit, monitor='qd_round_trip_unclaimed')
        qa += n
        da += nd
    if c == job['first']:
      mon.sample(dict(model=c, signatures=[info[b]['sig'] for b in order],
                      q=states[0][0], qd=states[0][1]))

    if c % job['steps_every'] != 0:
      continue
    # after a step, reported (q, qd) are the inverse image of reported (x, xd)
    def inv(x, xd):
      j, jd, _, _ = kinematics.world_to_joint(sys_, x, xd)
      return kinematics.inverse(sys_, j, jd)
    invj = jax.jit(inv)
    for pname in ('spring', 'positional'):
      p = phys.pipeline(pname)
      stepj = jax.jit(lambda q, qd, ctrl, p=p: p.step(
          sys_, p.init(sys_, q, qd), ctrl))
      for (q, qd) in states[:3]:
        ctrl = rng.uniform(-1, 1, mj.nu)
        st = stepj(jp.array(q), jp.array(qd), jp.array(ctrl))
        if not phys.finite(st.q, st.qd, st.x.pos):
          mon.count('step_diverged:' + pname)
          continue
        q3, qd3 = [np.asarray(a) for a in invj(st.x, st.xd)]
        e = max(np.abs(q3 - np.asarray(st.q)).max() if q3.size else 0.0,
                (np.abs(qd3 - np.asarray(st.qd)).max() / (
                    1 + np.abs(qd3).max())) if qd3.size else 0.0)
        mon.err('reported_q_is_inverse_image:' + pname, e)
        mon.check('reported_q_is_inverse_image:' + pname, e <= 1e-10,
                  lambda: dict(model=c, seed=job['seed'], pipeline=pname,
                               xml=xml, q0=q, qd0=qd, ctrl=ctrl,
                               reported_q=st.q, recomputed_q=q3,
                               reported_qd=st.qd, recomputed_qd=qd3))
