#!/bin/bash
# Offline set-up: contracts library beside the repo's interpreter (used by the
# thorough-tier ambient contracts only). Idempotent.
cd "$(dirname "$0")"
if [ ! -d .deps/icontract ]; then
  /venv/bin/pip install -q --no-index --find-links /opt/veriftools/wheels \
     --target .deps icontract deal >/dev/null 2>&1 || echo "setup: icontract/deal not installed (ambient contracts will be skipped)"
fi
/venv/bin/python -c "import jax, mujoco, brax; print('setup ok: jax', jax.__version__, 'mujoco', mujoco.__version__)"
